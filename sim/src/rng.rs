//! The one PRNG of a run. Implemented here (not taken from a crate) so that the stream
//! produced by a seed is pinned to this file and not to a crate version.

#[inline]
pub fn splitmix64(x: &mut u64) -> u64 {
    *x = x.wrapping_add(0x9E37_79B9_7F4A_7C15);
    let mut z = *x;
    z = (z ^ (z >> 30)).wrapping_mul(0xBF58_476D_1CE4_E5B9);
    z = (z ^ (z >> 27)).wrapping_mul(0x94D0_49BB_1331_11EB);
    z ^ (z >> 31)
}

/// seed of run `i` of a batch with base seed `base`
pub fn run_seed(base: u64, i: u64) -> u64 {
    let mut x = base ^ i.wrapping_mul(0x9E37_79B9_7F4A_7C15);
    splitmix64(&mut x)
}

/// xoshiro256**
#[derive(Clone)]
pub struct Rng {
    s: [u64; 4],
    pub draws: u64,
}

impl Rng {
    pub fn new(seed: u64) -> Self {
        let mut x = seed;
        let s = [
            splitmix64(&mut x),
            splitmix64(&mut x),
            splitmix64(&mut x),
            splitmix64(&mut x),
        ];
        Rng { s, draws: 0 }
    }

    #[inline]
    pub fn next_u64(&mut self) -> u64 {
        self.draws += 1;
        let r = self.s[1].wrapping_mul(5).rotate_left(7).wrapping_mul(9);
        let t = self.s[1] << 17;
        self.s[2] ^= self.s[0];
        self.s[3] ^= self.s[1];
        self.s[1] ^= self.s[2];
        self.s[0] ^= self.s[3];
        self.s[2] ^= t;
        self.s[3] = self.s[3].rotate_left(45);
        r
    }

    /// uniform in 0..n (n > 0); the tiny modulo bias is irrelevant here
    #[inline]
    pub fn below(&mut self, n: usize) -> usize {
        debug_assert!(n > 0);
        (self.next_u64() % (n as u64)) as usize
    }

    /// uniform in lo..=hi
    #[inline]
    pub fn range(&mut self, lo: usize, hi: usize) -> usize {
        debug_assert!(lo <= hi);
        lo + self.below(hi - lo + 1)
    }

    /// true with probability num/den
    #[inline]
    pub fn ratio(&mut self, num: u32, den: u32) -> bool {
        (self.next_u64() % den as u64) < num as u64
    }

    /// true with probability p (p in permille)
    #[inline]
    pub fn permille(&mut self, p: u32) -> bool {
        self.ratio(p, 1000)
    }

    #[inline]
    pub fn byte(&mut self) -> u8 {
        self.next_u64() as u8
    }

    #[inline]
    pub fn pick<'a, T>(&mut self, xs: &'a [T]) -> &'a T {
        &xs[self.below(xs.len())]
    }

    /// index drawn according to integer weights
    pub fn weighted(&mut self, weights: &[u32]) -> usize {
        let total: u64 = weights.iter().map(|&w| w as u64).sum();
        debug_assert!(total > 0);
        let mut x = self.next_u64() % total;
        for (i, &w) in weights.iter().enumerate() {
            if x < w as u64 {
                return i;
            }
            x -= w as u64;
        }
        weights.len() - 1
    }

    pub fn bytes(&mut self, n: usize) -> Vec<u8> {
        (0..n).map(|_| self.byte()).collect()
    }
}

/// FNV-1a, used for event-log hashes and distinct-history counting (never for anything
/// that feeds back into a run)
#[derive(Clone, Copy, Debug)]
pub struct Fnv(pub u64);

impl Default for Fnv {
    fn default() -> Self {
        Fnv(0xcbf2_9ce4_8422_2325)
    }
}

impl Fnv {
    #[inline]
    pub fn write(&mut self, bytes: &[u8]) {
        for &b in bytes {
            self.0 ^= b as u64;
            self.0 = self.0.wrapping_mul(0x0000_0100_0000_01B3);
        }
    }
    #[inline]
    pub fn write_u64(&mut self, v: u64) {
        self.write(&v.to_le_bytes());
    }
    #[inline]
    pub fn write_str(&mut self, s: &str) {
        self.write(s.as_bytes());
        self.write(&[0xff]);
    }
}

//! Per-property additions to the main batch: the real executable over OS pipes (C20), the
//! no-alloc build alone with feature-less nom (C18), Miri on the no-alloc build (C01).

use crate::json::J;
use crate::props::{c20, Prop};
use crate::rng::run_seed;
use crate::runner::{write_replay, Args, EvidenceExtra};
use std::sync::atomic::{AtomicU64, Ordering};
use std::sync::Mutex;

pub fn c01_extra(args: &Args) -> (EvidenceExtra, Vec<(String, String)>) {
    crate::miri::c01_miri(args)
}

pub fn c17_extra(args: &Args) -> (EvidenceExtra, Vec<(String, String)>) {
    crate::miri::miri_summary("C17", args)
}

pub fn c18_extra(args: &Args, prop: &dyn Prop) -> (EvidenceExtra, Vec<(String, String)>) {
    crate::fidelity::c18_fidelity(args, prop)
}

/// end-to-end confirmation on real I/O: the actual `aisparser` executable built from the
/// repository is fed a subset of the same streams through a pipe, in the same chunk sizes.
/// The kernel, not the simulator, decides the read boundaries here.
pub fn c20_extra(args: &Args, prop: &dyn Prop) -> (EvidenceExtra, Vec<(String, String)>) {
    let count: u64 = if args.tier == "thorough" { 6000 } else { 240 };
    let next = AtomicU64::new(0);
    let found: Mutex<Option<(u64, crate::ops::Scenario, crate::ops::Violation)>> = Mutex::new(None);
    let t0 = std::time::Instant::now();
    std::thread::scope(|scope| {
        for _ in 0..args.threads.max(1) {
            scope.spawn(|| loop {
                let i = next.fetch_add(1, Ordering::Relaxed);
                if i >= count {
                    break;
                }
                // every k-th run of the main batch, so the streams are "a subset of the same"
                let run = i * 7;
                let sc = prop.generate(run_seed(args.seed, run), run);
                let s = sc.stream.as_ref().unwrap();
                if let Some(v) = c20::judge_e2e(&s.data, &s.steps) {
                    let mut f = found.lock().unwrap();
                    let better = match &*f {
                        Some((r, _, _)) => run < *r,
                        None => true,
                    };
                    if better {
                        let mut sc = sc.clone();
                        sc.config = format!("e2e {}", sc.config);
                        *f = Some((run, sc, v));
                    }
                }
            });
        }
    });
    let mut violations = Vec::new();
    if let Some((_, sc, v)) = found.into_inner().unwrap() {
        // only reported separately when the in-process run does not already show it
        let inproc = {
            let mut c = sc.clone();
            c.config = c.config.trim_start_matches("e2e ").to_string();
            prop.judge(&c, None)
        };
        if inproc.is_none() {
            let (msc, mv) = c20::minimise_stream(prop, &sc, &v);
            let path = write_replay(args, &msc, &mv, 0, true);
            violations.push((path, format!("clause={} site={} (real executable only) {}", mv.clause, mv.site, mv.detail)));
        }
    }
    (
        EvidenceExtra {
            items: vec![(
                "real_executable_runs".into(),
                J::obj()
                    .set("streams", J::Int(count as i64))
                    .set("wall_s", J::Num((t0.elapsed().as_secs_f64() * 100.0).round() / 100.0))
                    .set(
                        "note",
                        J::str("the aisparser executable built from the repository, spawned per stream, fed through an OS pipe in the scenario's chunk sizes; exit status, stdout and stderr judged by the same oracle. Real I/O: confirmation, not the deterministic part"),
                    ),
            )],
        },
        violations,
    )
}

//! aisnone — the no-alloc build alone (nom without features). Reads a schedule on stdin:
//!   L <decode 0|1> <hex line>
//!   R                       (restart)
//! and prints one canonical outcome per operation. Used by C18's fidelity cross-check.

use ais_none::sentence::{AisFragments, AisParser};
use std::io::BufRead;

fn unhex(s: &str) -> Vec<u8> {
    (0..s.len() / 2)
        .map(|i| u8::from_str_radix(&s[2 * i..2 * i + 2], 16).unwrap_or(0))
        .collect()
}

fn main() {
    let stdin = std::io::stdin();
    let mut parser = AisParser::new();
    let mut out = String::new();
    for line in stdin.lock().lines() {
        let line = match line {
            Ok(l) => l,
            Err(_) => break,
        };
        if line == "R" {
            parser = AisParser::new();
            out.push_str("restart\n");
            continue;
        }
        if line == "N" {
            // new scenario
            parser = AisParser::new();
            out.push_str("new\n");
            continue;
        }
        let mut it = line.split(' ');
        if it.next() != Some("L") {
            continue;
        }
        let decode = it.next() == Some("1");
        let bytes = unhex(it.next().unwrap_or(""));
        let r = std::panic::catch_unwind(std::panic::AssertUnwindSafe(|| parser.parse(&bytes, decode)));
        match r {
            Err(_) => out.push_str("Panic\n"),
            Ok(Err(ais_none::errors::Error::Nmea { .. })) => out.push_str("ErrNmea\n"),
            Ok(Err(ais_none::errors::Error::Checksum { expected, found })) => {
                out.push_str(&format!("ErrChecksum {} {}\n", expected, found))
            }
            Ok(Ok(AisFragments::Complete(s))) => out.push_str(&format!("Complete {:?}\n", s)),
            Ok(Ok(AisFragments::Incomplete(s))) => out.push_str(&format!("Incomplete {:?}\n", s)),
        }
    }
    print!("{}", out);
}

//! aisnone — the no-alloc build alone, linked with nom compiled WITHOUT any feature (in the
//! main simulator binary cargo unifies nom's features to std+alloc for all three builds).
//! Reads schedules on stdin:
//!   N <nodes>                    new scenario with that many fresh parsers
//!   L <node> <decode 0|1> <hex>  deliver a line
//!   R <node>                     restart a node
//! and prints one canonical outcome per L line. Used by C18's fidelity cross-check.

use ais_none::sentence::{AisFragments, AisParser};
use std::io::BufRead;

fn unhex(s: &str) -> Vec<u8> {
    (0..s.len() / 2)
        .map(|i| u8::from_str_radix(&s[2 * i..2 * i + 2], 16).unwrap_or(0))
        .collect()
}

pub fn outcome_text(parser: &mut AisParser, bytes: &[u8], decode: bool) -> String {
    let r = std::panic::catch_unwind(std::panic::AssertUnwindSafe(|| parser.parse(bytes, decode)));
    match r {
        Err(_) => "Panic".to_string(),
        Ok(Err(ais_none::errors::Error::Nmea { .. })) => "ErrNmea".to_string(),
        Ok(Err(ais_none::errors::Error::Checksum { expected, found })) => {
            format!("ErrChecksum {} {}", expected, found)
        }
        Ok(Ok(AisFragments::Complete(s))) => format!("Complete {:?}", s),
        Ok(Ok(AisFragments::Incomplete(s))) => format!("Incomplete {:?}", s),
    }
}

fn main() {
    std::panic::set_hook(Box::new(|_| {}));
    let stdin = std::io::stdin();
    let mut parsers: Vec<AisParser> = vec![AisParser::new()];
    let mut out = String::new();
    for line in stdin.lock().lines() {
        let line = match line {
            Ok(l) => l,
            Err(_) => break,
        };
        let mut it = line.split(' ');
        match it.next() {
            Some("N") => {
                let n: usize = it.next().and_then(|s| s.parse().ok()).unwrap_or(1).max(1);
                parsers = (0..n).map(|_| AisParser::new()).collect();
            }
            Some("R") => {
                let n: usize = it.next().and_then(|s| s.parse().ok()).unwrap_or(0);
                let n = n.min(parsers.len() - 1);
                parsers[n] = AisParser::new();
            }
            Some("L") => {
                let n: usize = it.next().and_then(|s| s.parse().ok()).unwrap_or(0);
                let n = n.min(parsers.len() - 1);
                let decode = it.next() == Some("1");
                let bytes = unhex(it.next().unwrap_or(""));
                out.push_str(&outcome_text(&mut parsers[n], &bytes, decode));
                out.push('\n');
            }
            _ => {}
        }
    }
    print!("{}", out);
}

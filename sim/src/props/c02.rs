//! C02 — checksum gate: a line with a wrong checksum is never accepted, in any parser state;
//! an otherwise well-formed line with a wrong checksum yields the checksum error carrying
//! (transmitted, computed); a matching checksum never yields the checksum error.

use super::*;

pub struct C02;

pub const MARK_CS_VALUE: u8 = 1;
pub const MARK_CORRUPT_POS: u8 = 2;

pub const POS_NAMES: &[&str] = &[
    "tag block",
    "start delimiter",
    "address",
    "fragment count",
    "fragment number",
    "sequence id",
    "channel",
    "payload",
    "fill count",
    "separator comma",
    "star",
    "checksum digits",
    "tail",
    "before delimiter / unlexable",
];

/// where in the original (well-formed) line the first changed byte lies
fn corruption_pos(orig: &[u8], now: &[u8]) -> Option<u32> {
    let lx = lex(orig)?;
    let i = orig.iter().zip(now.iter()).position(|(a, b)| a != b).unwrap_or(orig.len().min(now.len()));
    if i < lx.delim {
        return Some(0);
    }
    if i == lx.delim {
        return Some(1);
    }
    if i < lx.star {
        for (fi, r) in lx.fields.iter().enumerate() {
            if r.contains(&i) {
                return Some(2 + fi.min(6) as u32);
            }
        }
        return Some(9);
    }
    if i == lx.star {
        return Some(10);
    }
    if i <= lx.star + lx.digits {
        return Some(11);
    }
    Some(12)
}

impl Prop for C02 {
    fn id(&self) -> &'static str {
        "C02"
    }

    fn generate(&self, seed: u64, run: u64) -> Scenario {
        let mut rng = Rng::new(seed);
        let profile = if rng.ratio(2, 3) { LinkProfile::Corruption } else { LinkProfile::Chaos };
        let reassembly = rng.ratio(1, 2);
        let (ops, nodes, desc) = chaos_ops(&mut rng, profile, reassembly, 2, 60);
        Scenario {
            prop: "C02".into(),
            seed,
            run,
            nodes,
            ops,
            stream: None,
            config: desc,
            hidden_faults: take_hidden_faults(),
        }
    }

    fn judge(&self, sc: &Scenario, mut st: Option<&mut Stats>) -> Option<Violation> {
        // The gate is judged in all three builds: the no-alloc build has a second copy of it on
        // the path for sentences whose payload does not fit (reject_oversized), and feature-gated
        // code may sit in front of either. Reach probes and coverage are counted once (std).
        for build in Build::ALL {
            let v = if build == Build::Std { judge_build(build, sc, st.as_deref_mut()) } else { judge_build(build, sc, None) };
            if v.is_some() {
                return v;
            }
        }
        if let Some(st) = st.as_deref_mut() {
            st.probe("gate judged on the std, alloc and no-alloc builds");
        }
        None
    }
}

fn judge_build(build: Build, sc: &Scenario, mut st: Option<&mut Stats>) -> Option<Violation> {
    {
        let nn = sc.nodes.max(1);
        let mut abs: Vec<AbsNode> = vec![AbsNode::default(); nn];
        let mut result: Option<Violation> = None;
        let abs_ref = std::cell::RefCell::new(&mut abs);
        let st_ref = std::cell::RefCell::new(&mut st);
        run_lines(
            build,
            sc,
            |i, l, out, _node| {
                let node = l.node.min(nn - 1);
                let mut stg = st_ref.borrow_mut();
                let open_before = abs_ref.borrow()[node].open;
                if let Some(st) = stg.as_deref_mut() {
                    st.lines += 1;
                    st.outcome(out);
                    abs_ref.borrow_mut()[node].observe(&l.bytes, out, st);
                }
                let fail = |clause: &str, detail: String| Violation {
                    prop: "C02".into(),
                    clause: clause.into(),
                    at: i,
                    build: build.name().into(),
                    detail: format!("{} — line {:?}, outcome {}", detail, crate::json::show(&l.bytes), out.brief()),
                    site: clause.into(),
                };
                let lx = lex(&l.bytes);
                let structure = lx.as_ref().and_then(|lx| lx.value.map(|v| (v, xor(lx.body(&l.bytes)))));
                match (out, structure) {
                    (Outcome::Complete(..) | Outcome::Incomplete(..), None) => {
                        // Accepted although there is no start delimiter, no '*' after it or no
                        // hex digit after that: "accepted only if the XOR ... equals the
                        // hexadecimal value that follows that '*'" cannot hold where no such value
                        // exists. (My first version handed this case to C08, which nobody claims
                        // here - a hole an independent review of the oracles demonstrated with a
                        // change that accepts sentences without '*hh'.)
                        if let Some(st) = stg.as_deref_mut() {
                            st.judged += 1;
                        }
                        result = Some(fail(
                            "accepted-without-checksum",
                            "accepted although the line has no start delimiter followed by '*' and a hexadecimal value".to_string(),
                        ));
                        return false;
                    }
                    (Outcome::Complete(..) | Outcome::Incomplete(..), Some((v, x))) => {
                        if let Some(st) = stg.as_deref_mut() {
                            st.judged += 1;
                            st.probe_if(
                                l.faults.iter().any(|f| {
                                    matches!(
                                        f,
                                        Fault::FlipBit | Fault::ReplaceByte | Fault::InsertByte | Fault::DeleteByte
                                    )
                                }),
                                "corrupted line accepted because the checksum still matches",
                            );
                        }
                        if v != x as u32 {
                            result = Some(fail(
                                "accepted-with-wrong-checksum",
                                format!(
                                    "accepted although the transmitted checksum is {:#x} and the body XORs to {:#04x}",
                                    v, x
                                ),
                            ));
                            return false;
                        }
                    }
                    (Outcome::ErrChecksum { expected, found }, Some((v, x))) if v <= 0xff => {
                        if let Some(st) = stg.as_deref_mut() {
                            st.judged += 1;
                            st.marks.insert((MARK_CS_VALUE, v));
                            let frag_k = lx.as_ref().and_then(|lx| {
                                std::str::from_utf8(lx.field(&l.bytes, 2)?).ok()?.parse::<u32>().ok()
                            });
                            st.probe_if(
                                open_before && matches!(frag_k, Some(k) if k >= 2),
                                "checksum error on a fragment k>=2 while a group is open",
                            );
                            st.probe_if(
                                open_before && frag_k == Some(1),
                                "checksum error on a k=1 line while a group is open",
                            );
                        }
                        if *expected as u32 != v || *found != x || expected == found {
                            result = Some(fail(
                                "checksum-error-carries-wrong-values",
                                format!(
                                    "transmitted {:#04x}, computed {:#04x}, but the error reports expected={:#04x} found={:#04x}",
                                    v, x, expected, found
                                ),
                            ));
                            return false;
                        }
                    }
                    (Outcome::ErrChecksum { .. }, _) => {
                        if let Some(st) = stg.as_deref_mut() {
                            st.unscoped += 1;
                        }
                    }
                    _ => {}
                }
                if let (Some(lx), Some((v, x))) = (&lx, structure) {
                    if v <= 0xff && v == x as u32 {
                        if let Outcome::ErrChecksum { .. } = out {
                            result = Some(fail(
                                "matching-checksum-rejected-as-checksum-error",
                                format!("transmitted and computed checksum are both {:#04x}", x),
                            ));
                            return false;
                        }
                    }
                    // "otherwise well-formed" is ground truth from the generator for the fields the
                    // property lists, and for the rest of the rendering (tag block, delimiter, number
                    // padding, trailing bytes ...) it is decided by the real code: the same rendering
                    // with a *correct* checksum and the header of an unfragmented sentence must be
                    // accepted by a fresh parser. Otherwise the line is rejected for its form
                    // whatever its checksum - not the gate's business.
                    // The property has no exemption for capacity: a sentence whose payload exceeds
                    // the no-alloc build's 384-byte buffer gets the checksum error there too (the
                    // repair of D8 saw to that). Its rendering cannot be probed in that build (the
                    // probe would be refused for capacity), so the std build is asked instead.
                    let over_capacity = build == Build::None && lx.field(&l.bytes, 5).map_or(false, |p| p.len() > 384);
                    let probe_build = if over_capacity { Build::Std } else { build };
                    let clause3 = l.form_ok && v <= 0xff && lx.fields.len() == 7 && v != x as u32;
                    let rendering_accepted = clause3
                        && match reheaded_unfragmented(&l.bytes) {
                            Some(probe) => matches!(new_node(probe_build).parse(&probe, false, false), Outcome::Complete(ref s, _) if s.n == 1),
                            None => false,
                        };
                    if clause3 && !rendering_accepted {
                        if let Some(st) = stg.as_deref_mut() {
                            st.unscoped += 1;
                        }
                    }
                    if clause3 && rendering_accepted {
                        if let Some(st) = stg.as_deref_mut() {
                            st.judged += 1;
                            st.probe("well-formed line with wrong checksum (ground truth) judged");
                        }
                        if !matches!(out, Outcome::ErrChecksum { .. }) {
                            result = Some(fail(
                                "wellformed-wrong-checksum-not-a-checksum-error",
                                format!(
                                    "the line is well-formed by construction (faults: {}), transmitted {:#04x}, computed {:#04x}",
                                    l.faults.iter().map(|f| f.name()).collect::<Vec<_>>().join(","),
                                    v,
                                    x
                                ),
                            ));
                            return false;
                        }
                    }
                }
                if let (Some(st), Some(orig)) = (stg.as_deref_mut(), &l.orig) {
                    if let Some(p) = corruption_pos(orig, &l.bytes) {
                        st.marks.insert((MARK_CORRUPT_POS, p));
                    }
                }
                true
            },
            |_i, node| {
                if let Some(st) = st_ref.borrow_mut().as_deref_mut() {
                    st.restarts += 1;
                    abs_ref.borrow_mut()[node.min(nn - 1)].restart(st);
                }
            },
        );
        if let Some(st) = st_ref.borrow_mut().as_deref_mut() {
            st.histories.insert(combined_history(&abs_ref.borrow()));
        }
        result
    }
}

//! C01 — parsing is total: no panic, abort or hang on any input or history, in any of the
//! three builds, with decoding on or off; same for `unarmor` (fill 0..=5) and
//! `messages::parse`. Runs in the *checked* profile (overflow checks, debug assertions).

use super::*;
use crate::json::show;

pub struct C01;

const ADDR: &[u8; 5] = b"AIVDM";

fn extreme_header_line(rng: &mut Rng) -> Vec<u8> {
    let pick_num = |rng: &mut Rng| -> u8 { *rng.pick(&[0u8, 0, 1, 1, 2, 2, 3, 4, 9, 10, 127, 128, 254, 255]) };
    let n = pick_num(rng);
    let k = pick_num(rng);
    let id = match rng.below(4) {
        0 => None,
        1 => Some(0),
        2 => Some(255),
        _ => Some(rng.below(3) as u8),
    };
    let plen = *rng.pick(&[1usize, 1, 2, 7, 28, 60]);
    let payload: Vec<u8> = (0..plen).map(|_| armor_char(rng.below(64) as u8)).collect();
    make_line(ADDR, n, k, id, b"A", &payload, rng.below(6) as u8)
}

/// a sentence just outside (or at the edge of) the accepted grammar, with a *valid* checksum,
/// so that a relaxed field check would let it through to the arithmetic behind it
fn near_miss_line(rng: &mut Rng) -> Vec<u8> {
    let plen = *rng.pick(&[1usize, 1, 1, 2, 3, 4, 28]);
    let payload: Vec<u8> = (0..plen).map(|_| armor_char(rng.below(64) as u8)).collect();
    let n = *rng.pick(&[1u8, 1, 2, 3]);
    let k = rng.range(1, n as usize) as u8;
    let base = make_line(ADDR, n, k, if n > 1 { Some(rng.below(10) as u8) } else { None }, b"A", &payload, rng.below(6) as u8);
    let lx = lex(&base).unwrap();
    let nums: &[&[u8]] = &[
        b"0", b"00", b"255", b"256", b"999", b"65536", b"4294967296", b"", b"-1", b"+1", b" 1", b"1 ", b"0x1", b"1e1",
        b"18446744073709551615", b"18446744073709551616", b"99999999999999999999",
        b"340282366920938463463374607431768211456", b"0000000000000000000000000000000000000001",
    ];
    let fills: &[&[u8]] = &[
        b"6", b"7", b"8", b"9", b"10", b"16", b"255", b"256", b"", b"05", b"06", b"007", b"-1",
        b"18446744073709551616", b"99999999999999999999", b"000000000000000000000000000005",
    ];
    let repl: Vec<(usize, Vec<u8>)> = match rng.below(8) {
        0 | 1 | 2 => vec![(6, rng.pick(fills).to_vec())],
        3 => vec![(1, rng.pick(nums).to_vec())],
        4 => vec![(2, rng.pick(nums).to_vec())],
        5 => vec![(3, rng.pick(nums).to_vec())],
        6 => vec![(5, vec![])],
        _ => vec![(6, rng.pick(fills).to_vec()), (5, vec![armor_char(rng.below(64) as u8)])],
    };
    rewrite_fields(&base, &lx, &repl)
}

fn long_text_line(rng: &mut Rng) -> Vec<u8> {
    // type 12 / 14 with 15..40 characters of text (the no-alloc text buffer holds 20)
    let ty = *rng.pick(&[12u8, 14]);
    let hdr = if ty == 12 { 72 } else { 40 };
    let nch = rng.range(15, 40);
    let bits = hdr + nch * 6 + rng.below(6);
    let mut v: Vec<bool> = (0..bits).map(|_| rng.ratio(1, 2)).collect();
    for i in 0..6 {
        v[i] = (ty >> (5 - i)) & 1 == 1;
    }
    let (chars, fill) = armor_bits(&v);
    make_line(ADDR, 1, 1, None, b"B", &chars, fill)
}

fn soak(seed: u64, run: u64, large: bool) -> Scenario {
    let mut rng = Rng::new(seed ^ 0x50a4_50a4);
    let target = if large { rng.range(65_600, 70_000) } else { rng.range(300, 1_500) };
    let mut ops: Vec<Op> = Vec::with_capacity(target + 100);
    let mut chunks = 0;
    while ops.len() < target {
        // mostly clean reassembly traffic (so that groups complete and are counted), some chaos
        let profile = if rng.ratio(3, 4) { LinkProfile::Reassembly } else { LinkProfile::Chaos };
        let (chunk, _, _) = chaos_ops(&mut rng, profile, true, 1, 90);
        for o in chunk {
            match o {
                Op::Line(mut l) => {
                    l.node = 0;
                    if large {
                        // keep the large shape light: no annotations the oracle does not read
                        l.orig = None;
                        l.sent = None;
                    }
                    ops.push(Op::Line(l));
                }
                Op::Restart { .. } => {} // a restart would reset whatever is being counted
                o => ops.push(o),
            }
        }
        chunks += 1;
    }
    Scenario {
        prop: "C01".into(),
        seed,
        run,
        nodes: 1,
        ops,
        stream: None,
        config: format!("shape=soak-{} target={} chunks={}", if large { "large" } else { "small" }, target, chunks),
        hidden_faults: take_hidden_faults(),
    }
}

impl Prop for C01 {
    fn id(&self) -> &'static str {
        "C01"
    }

    fn generate(&self, seed: u64, run: u64) -> Scenario {
        // soak shapes: long histories on one parser (hundreds of lines in one run of 150, more
        // than 65 536 in one of 4 000), for anything that counts lines, groups or errors in a
        // narrow integer. Decided by a hash of the seed that is independent of the run's own
        // PRNG stream, so that every other run is exactly what it was before the shapes existed.
        let mut h = seed ^ 0xc01_50a4_c01_50a4;
        let pick = crate::rng::splitmix64(&mut h);
        if pick % 150 == 1 {
            return soak(seed, run, false);
        }
        if pick % 4000 == 2 {
            return soak(seed, run, true);
        }
        let mut rng = Rng::new(seed);
        let shape = rng.below(200);
        let (mut ops, nodes, mut desc);
        if shape == 0 {
            // a group of 255 fragments delivered in order drives the stored number to 255;
            // what follows meets the arithmetic at its upper edge
            let n = *rng.pick(&[255u8, 255, 254]);
            let id = Some(rng.below(10) as u8);
            ops = Vec::new();
            // the first character decides whether the reassembled payload decodes (type 1), is of
            // an unsupported type (0, 22, 63) or too short for its type (5)
            let first: &[u8] = *rng.pick(&[&b"1"[..], b"1", b"0", b"F", b"w", b"5"]);
            for k in 1..n {
                ops.push(Op::Line(LineOp::plain(0, make_line(ADDR, n, k, id, b"A", if k == 1 { first } else { b"1" }, 0), false)));
            }
            for _ in 0..rng.range(1, 5) {
                let (nn, k) = match rng.below(3) {
                    0 => *rng.pick(&[(2u8, 2u8), (3, 2), (3, 3), (2, 1), (9, 5), (255, 2), (n, n), (n, n)]),
                    _ => (*rng.pick(&[255u8, 255, 0, 1]), *rng.pick(&[0u8, 0, 1, 254, 255, 255])),
                };
                let fid = if rng.ratio(1, 6) { None } else { id };
                ops.push(Op::Line(LineOp::plain(
                    0,
                    make_line(ADDR, nn, k, fid, b"A", b"1", 0),
                    rng.ratio(1, 2),
                )));
            }
            nodes = 1;
            desc = format!("shape=long-group n={}", n);
        } else {
            let reassembly = rng.ratio(1, 3);
            let r = chaos_ops(&mut rng, LinkProfile::Chaos, reassembly, 3, 90);
            ops = r.0;
            nodes = r.1;
            desc = r.2;
            // hand-placed adversarial lines
            let extras = rng.below(5);
            for _ in 0..extras {
                let line = match rng.below(6) {
                    0 | 1 => extreme_header_line(&mut rng),
                    2 => long_text_line(&mut rng),
                    3 | 4 => near_miss_line(&mut rng),
                    _ => noise_line(&mut rng),
                };
                let at = rng.below(ops.len() + 1);
                let node = rng.below(nodes);
                ops.insert(at, Op::Line(LineOp::plain(node, line, rng.ratio(2, 3))));
            }
            desc.push_str(&format!(" extras={}", extras));
        }
        // payload-level client: the two public payload functions on what is in flight
        let api_pm = *rng.pick(&[0u32, 100, 300, 600]);
        let mut with_api: Vec<Op> = Vec::with_capacity(ops.len() * 2);
        for op in ops {
            let bytes = match &op {
                Op::Line(l) => Some(l.bytes.clone()),
                _ => None,
            };
            with_api.push(op);
            if let Some(b) = bytes {
                if rng.permille(api_pm) {
                    let payload = match lex(&b) {
                        Some(lx) if lx.fields.len() >= 6 => lx.field(&b, 5).unwrap().to_vec(),
                        _ => b.clone(),
                    };
                    let payload = match rng.below(6) {
                        0 => payload[..rng.below(payload.len() + 1)].to_vec(),
                        1 => vec![],
                        _ => payload,
                    };
                    with_api.push(Op::Unarmor {
                        bytes: payload,
                        fill: rng.below(6) as u8,
                    });
                }
                if rng.permille(api_pm / 2) {
                    let raw = match rng.below(3) {
                        0 => b.clone(),
                        1 => {
                            let n = rng.below(80);
                            let mut v = rng.bytes(n);
                            if !v.is_empty() {
                                v[0] = (*rng.pick(SUPPORTED_TYPES) << 2) | (v[0] & 3);
                            }
                            v
                        }
                        _ => {
                            let n = *rng.pick(&[0usize, 1, 2, 5, 9, 11, 12, 15, 16, 21, 40, 136, 200]);
                            let mut v = rng.bytes(n);
                            if !v.is_empty() {
                                v[0] = (*rng.pick(SUPPORTED_TYPES) << 2) | (v[0] & 3);
                            }
                            v
                        }
                    };
                    with_api.push(Op::Decode { bytes: raw });
                }
            }
        }
        desc.push_str(&format!(" api_pm={}", api_pm));
        Scenario {
            prop: "C01".into(),
            seed,
            run,
            nodes,
            ops: with_api,
            stream: None,
            config: desc,
            hidden_faults: take_hidden_faults(),
        }
    }

    fn judge(&self, sc: &Scenario, mut st: Option<&mut Stats>) -> Option<Violation> {
        for build in Build::ALL {
            let mut nodes: Vec<Box<dyn Node>> = (0..sc.nodes.max(1)).map(|_| new_node(build)).collect();
            let mut abs: Vec<AbsNode> = vec![AbsNode::default(); nodes.len()];
            for (i, op) in sc.ops.iter().enumerate() {
                crate::watchdog::enter(i);
                let panic: Option<(String, String)> = match op {
                    Op::Line(l) => {
                        let node = l.node.min(nodes.len() - 1);
                        let out = nodes[node].parse(&l.bytes, l.decode, l.conv_result);
                        if let Some(st) = st.as_deref_mut() {
                            st.lines += 1;
                            st.outcome(&out);
                            if build == Build::Std {
                                let before = (abs[node].open, abs[node].stored);
                                abs[node].observe(&l.bytes, &out, st);
                                probes(st, l, &out, before);
                            }
                            if let Outcome::Complete(s, _) = &out {
                                if let Some(m) = &s.message {
                                    let name = m.split(|c| c == '(' || c == ' ').next().unwrap_or("");
                                    st.dyn_probe(format!("decoded:{}:{}", build.name(), name));
                                }
                            }
                        }
                        match out {
                            Outcome::Panic(p) => Some((
                                p,
                                format!(
                                    "parse(line={:?}, decode={}) on node {} after {} earlier operations",
                                    show(&l.bytes),
                                    l.decode,
                                    node,
                                    i
                                ),
                            )),
                            _ => None,
                        }
                    }
                    Op::Restart { node } => {
                        let node = (*node).min(nodes.len() - 1);
                        nodes[node].restart();
                        if let Some(st) = st.as_deref_mut() {
                            if build == Build::Std {
                                st.restarts += 1;
                                abs[node].restart(st);
                            }
                        }
                        None
                    }
                    Op::Unarmor { bytes, fill } => {
                        if let Some(st) = st.as_deref_mut() {
                            st.direct_api_calls += 1;
                            if build == Build::Std {
                                st.probe_if(bytes.is_empty() && *fill > 0, "api:unarmor(empty,fill>0)");
                                st.probe_if(bytes.len() == 1 && *fill > 0, "api:unarmor(1 char,fill>0)");
                            }
                        }
                        match api_unarmor(build, bytes, *fill as usize) {
                            ApiOutcome::Panic(p) => Some((
                                p,
                                format!("unarmor({:?}, {})", show(bytes), fill),
                            )),
                            ApiOutcome::Ok(_) => {
                                // and decode what came out
                                match api_unarmor_raw(build, bytes, *fill as usize) {
                                    Some(raw) => {
                                        if let Some(st) = st.as_deref_mut() {
                                            st.direct_api_calls += 1;
                                        }
                                        match api_decode(build, &raw) {
                                            ApiOutcome::Panic(p) => Some((
                                                p,
                                                format!(
                                                    "messages::parse(unarmor({:?}, {}))",
                                                    show(bytes),
                                                    fill
                                                ),
                                            )),
                                            _ => None,
                                        }
                                    }
                                    None => None,
                                }
                            }
                            ApiOutcome::Err(_) => None,
                        }
                    }
                    Op::Decode { bytes } => {
                        if let Some(st) = st.as_deref_mut() {
                            st.direct_api_calls += 1;
                            if build == Build::Std {
                                st.probe_if(bytes.is_empty(), "api:parse(empty)");
                            }
                        }
                        match api_decode(build, bytes) {
                            ApiOutcome::Panic(p) => {
                                Some((p, format!("messages::parse(hex {})", crate::json::hex(bytes))))
                            }
                            _ => None,
                        }
                    }
                };
                crate::watchdog::leave();
                if let Some((p, what)) = panic {
                    return Some(Violation {
                        prop: "C01".into(),
                        clause: "panic".into(),
                        at: i,
                        build: build.name().into(),
                        detail: format!("{} panicked in the {} build: {}", what, build.name(), p),
                        site: panic_site(&p),
                    });
                }
            }
            if let Some(st) = st.as_deref_mut() {
                if build == Build::Std {
                    st.histories.insert(combined_history(&abs));
                    st.probe_if(sc.ops.len() > 256 && sc.nodes == 1, "history:more than 256 lines on one parser");
                    st.probe_if(sc.ops.len() > 65_536 && sc.nodes == 1, "history:more than 65536 lines on one parser");
                }
            }
        }
        None
    }
}

/// normalised failing site of a panic: message class and source location, with the
/// repository prefix removed so that scratch copies report the same site
pub fn panic_site(p: &str) -> String {
    let (msg, loc) = match p.rsplit_once(" @ ") {
        Some((m, l)) => (m, l),
        None => (p, ""),
    };
    let loc = match loc.find("/src/") {
        Some(i) => &loc[i + 1..],
        None => loc,
    };
    // strip run-specific numbers from the message
    let mut m = String::new();
    let mut last_digit = false;
    for c in msg.chars() {
        if c.is_ascii_digit() {
            if !last_digit {
                m.push('#');
            }
            last_digit = true;
        } else {
            m.push(c);
            last_digit = false;
        }
    }
    if m.len() > 60 {
        m.truncate(60);
    }
    format!("{} @ {}", m, loc)
}

fn probes(st: &mut Stats, l: &LineOp, out: &Outcome, before: (bool, u8)) {
    if let Some(lx) = lex(&l.bytes) {
        if lx.fields.len() == 7 {
            let num = |i: usize| -> Option<u32> {
                std::str::from_utf8(lx.field(&l.bytes, i)?).ok()?.parse::<u32>().ok()
            };
            let valid = lx.value == Some(xor(lx.body(&l.bytes)) as u32);
            if valid {
                let n = num(1);
                let k = num(2);
                st.probe_if(k == Some(0), "line:k=0 (valid checksum)");
                st.probe_if(n == Some(0), "line:n=0 (valid checksum)");
                st.probe_if(
                    before.0 && matches!(k, Some(k) if k >= 1 && (k as u8) < before.1 && k <= 255),
                    "line:k lower than stored number, group open",
                );
                st.probe_if(before.1 >= 254, "state:stored number >= 254");
                let plen = lx.field(&l.bytes, 5).map(|f| f.len()).unwrap_or(0);
                st.probe_if(plen > 384, "line:payload field > 384 bytes");
                st.probe_if(plen == 384, "line:payload field = 384 bytes");
            }
        }
    }
    if let Outcome::Complete(s, _) = out {
        if let Some(m) = &s.message {
            if m.starts_with("AddressedSafetyRelatedMessage") || m.starts_with("SafetyRelatedBroadcastMessage") {
                // characters transmitted: 6 bits per payload character, less the fill count
                let hdr = if m.starts_with("Addressed") { 72 } else { 40 };
                let chars = (s.data.len() * 6).saturating_sub(s.fill.min(5) as usize).saturating_sub(hdr) / 6;
                st.probe_if(chars > 20, "decode:safety text > 20 chars");
                st.probe_if(chars == 20, "decode:safety text = 20 chars");
            }
            if m.starts_with("Binary") || m.starts_with("Dgnss") {
                let bytes = (s.data.len() * 6 + 7) / 8;
                st.probe_if(bytes > 134, "decode:binary message > 134 bytes");
            }
        }
        st.probe_if(s.n != 1 && s.data.len() > 384, "reassembled payload > 384 bytes");
    }
}

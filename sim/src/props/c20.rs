//! C20 — the command-line tool survives any input stream: every line that completes a
//! message gives one stdout record, every rejected line one stderr record, incomplete
//! fragments nothing, in input order, and the tool reaches end of input.
//! I/O surface: scripted stdin (chunk sizes, EINTR, EOF in mid-line) behind the crate's own
//! `lib::std::io` seam; confirmation runs drive the real executable over OS pipes.

use super::*;
use crate::cli;
use std::io::Write;

pub struct C20;

/// split exactly as the statement says: at '\n'; a trailing piece without newline is a line,
/// nothing after a final newline is not
pub fn split_lines(data: &[u8]) -> Vec<&[u8]> {
    let mut out = Vec::new();
    let mut start = 0;
    for (i, &b) in data.iter().enumerate() {
        if b == b'\n' {
            out.push(&data[start..i]);
            start = i + 1;
        }
    }
    if start < data.len() {
        out.push(&data[start..]);
    }
    out
}

pub struct Expected {
    /// per Complete: text that must appear in the i-th stdout record
    pub out: Vec<Vec<String>>,
    /// per rejected line: texts of which one must appear in the i-th stderr record
    /// (`{:?}` or `{}` of the error - how an error is rendered is the tool's choice)
    pub err: Vec<Vec<String>>,
    pub kinds: Vec<&'static str>,
    pub lib_panic: Option<String>,
}

/// reference: the real library (std build, decoding on) fed the same lines in order
pub fn expected(data: &[u8]) -> Expected {
    let mut node = new_node(Build::Std);
    let mut e = Expected {
        out: vec![],
        err: vec![],
        kinds: vec![],
        lib_panic: None,
    };
    for line in split_lines(data) {
        let o = node.parse(line, true, false);
        e.kinds.push(o.kind());
        match o {
            // "containing the decoded message": the message's own Debug text (which `Some(..)`
            // around it contains too); how the tool wraps or spaces it is its choice (`compare`)
            Outcome::Complete(s, _) => e.out.push(vec![match s.message {
                Some(m) => m,
                None => "None".to_string(),
            }]),
            Outcome::Incomplete(..) => {}
            Outcome::ErrNmea(msg) => e.err.push(vec![
                format!("Nmea {{ msg: {:?} }}", msg),
                format!("Error parsing NMEA content: {}", msg),
            ]),
            Outcome::ErrChecksum { expected, found } => e.err.push(vec![
                format!("Checksum {{ expected: {}, found: {} }}", expected, found),
                format!("Checksum error; expected 0x{:x}, found 0x{:x}", expected, found),
            ]),
            Outcome::Panic(p) => {
                e.lib_panic = Some(p);
                break;
            }
        }
    }
    e
}

fn records(bytes: &[u8]) -> (Vec<&[u8]>, bool) {
    // records are '\n'-terminated; returns (records, properly terminated?)
    let terminated = bytes.is_empty() || bytes.last() == Some(&b'\n');
    (split_lines(bytes), terminated)
}

fn contains(hay: &[u8], needle: &[u8]) -> bool {
    if needle.is_empty() {
        return true;
    }
    hay.windows(needle.len()).any(|w| w == needle)
}

/// letters, digits and the characters numbers are made of; everything else (spacing, brackets,
/// quotes, line breaks inside a pretty-printed record ...) is the tool's choice
fn squeeze(b: &[u8]) -> Vec<u8> {
    b.iter().copied().filter(|c| c.is_ascii_alphanumeric() || matches!(c, b'.' | b'-' | b'+' | b'_')).collect()
}

fn record_matches(r: &[u8], alts: &[String]) -> bool {
    alts.iter().any(|alt| contains(r, alt.as_bytes()) || contains(&squeeze(r), &squeeze(alt.as_bytes())))
}

fn compare(which: &str, got: &[u8], want: &[Vec<String>]) -> Option<(String, String)> {
    let (recs, terminated) = records(got);
    if recs.len() != want.len() {
        return Some((
            format!("{}-record-count", which),
            format!(
                "{} has {} record(s), the input has {} line(s) that should produce one",
                which,
                recs.len(),
                want.len()
            ),
        ));
    }
    if !terminated {
        return Some((format!("{}-record-count", which), format!("the last {} record is not newline-terminated", which)));
    }
    // The statement prescribes no content for a stderr record, only that there is one per
    // rejected line, in input order. Order can be seen only through content, so content is
    // compared when the tool renders errors in a form the oracle knows (the first record tells);
    // a tool with a rendering of its own is judged on the number of records alone.
    if which == "stderr" {
        if let (Some(r), Some(w)) = (recs.first(), want.first()) {
            if !record_matches(r, w) {
                return None;
            }
        }
    }
    for (i, (r, w)) in recs.iter().zip(want.iter()).enumerate() {
        if !record_matches(r, w) {
            return Some((
                format!("{}-record-content", which),
                format!(
                    "{} record {} is {:?}; it should contain {:?}",
                    which,
                    i,
                    crate::json::show(r),
                    w[0]
                ),
            ));
        }
    }
    None
}

pub fn judge_run(
    data: &[u8],
    panicked: &Option<String>,
    exit_ok: bool,
    stdout: &[u8],
    stderr: &[u8],
    at: usize,
    how: &str,
) -> Option<Violation> {
    let exp = expected(data);
    let fail = |clause: &str, site: String, detail: String| Violation {
        prop: "C20".into(),
        clause: clause.into(),
        at,
        build: how.into(),
        detail,
        site,
    };
    if let Some(p) = panicked {
        return Some(fail(
            "tool-stops",
            format!("panic:{}", super::c01::panic_site(p)),
            format!("the tool panicked before reaching end of input: {}", p),
        ));
    }
    if !exit_ok {
        return Some(fail("tool-stops", "exit-status".into(), "the tool did not exit successfully".into()));
    }
    if exp.lib_panic.is_some() {
        // the library itself panics on this input; the tool survived it, nothing more to compare
        return None;
    }
    if let Some((site, detail)) = compare("stdout", stdout, &exp.out) {
        return Some(fail("records-differ", site, detail));
    }
    if let Some((site, detail)) = compare("stderr", stderr, &exp.err) {
        return Some(fail("records-differ", site, detail));
    }
    None
}

fn gen_stream(rng: &mut Rng) -> (StreamSpec, String) {
    let profile = *rng.pick(&[LinkProfile::Chaos, LinkProfile::Corruption, LinkProfile::Clean, LinkProfile::Reassembly]);
    let reassembly = rng.ratio(1, 2);
    let (ops, _, desc) = chaos_ops(rng, profile, reassembly, 1, 40);
    let mut faults: Vec<Fault> = Vec::new();
    let mut lines: Vec<Vec<u8>> = Vec::new();
    for op in &ops {
        if let Op::Line(l) = op {
            faults.extend(l.faults.iter().copied());
            lines.push(l.bytes.iter().copied().filter(|&b| b != b'\n').collect());
        }
    }
    // stream-level line content
    let high_pm = *rng.pick(&[0u32, 50, 200, 500]);
    let empty_pm = *rng.pick(&[0u32, 50, 200]);
    let crlf_pm = *rng.pick(&[0u32, 0, 300, 1000]);
    let mut data: Vec<u8> = Vec::new();
    let mut i = 0;
    let total = lines.len();
    while i < total || (total == 0 && data.is_empty() && rng.ratio(1, 2)) {
        if rng.permille(empty_pm) {
            faults.push(Fault::EmptyLine);
            if rng.ratio(1, 3) {
                data.push(b'\r');
            }
            data.push(b'\n');
            if total == 0 {
                break;
            }
            continue;
        }
        if rng.permille(high_pm) {
            // line noise with bytes >= 0x80, NUL, lone CR
            faults.push(Fault::Noise);
            let n = rng.range(1, 30);
            for _ in 0..n {
                let b = match rng.below(6) {
                    0 => 0,
                    1 => b'\r',
                    2 | 3 => rng.range(0x80, 0xff) as u8,
                    _ => rng.byte(),
                };
                if b != b'\n' {
                    data.push(b);
                }
            }
            data.push(b'\n');
            if total == 0 {
                break;
            }
            continue;
        }
        if i >= total {
            break;
        }
        let mut l = lines[i].clone();
        i += 1;
        if rng.permille(high_pm / 4) && !l.is_empty() {
            // a byte >= 0x80 inside an otherwise valid sentence, with matching checksum
            if let Some(lx) = lex(&l) {
                if lx.fields.len() == 7 && lx.value.is_some() {
                    let which = *rng.pick(&[4usize, 5, 5]);
                    let r = lx.fields[which].clone();
                    if !r.is_empty() {
                        let j = r.start + rng.below(r.len());
                        let mut m = l.clone();
                        m[j] = rng.range(0x80, 0xff) as u8;
                        let body_x = xor(&m[lx.delim + 1..lx.star]);
                        l = with_checksum(&m, &lx, body_x as u32, 2, true);
                        faults.push(Fault::FormPreservingByte);
                    }
                }
            }
        }
        if rng.ratio(1, 300) {
            // a line longer than BufReader's 8 KiB; sometimes around 16, 32, 64 and 128 KiB
            let n = match rng.below(6) {
                0 => rng.range(16380, 16390),
                1 => rng.range(32764, 32772),
                2 => rng.range(65530, 65542),
                3 => rng.range(131070, 131080),
                _ => rng.range(8193, 20000),
            };
            let have = l.len();
            // either junk after the checksum, or padding to an exact total length
            let add = if rng.ratio(1, 2) { n } else { n.saturating_sub(have) };
            l.extend((0..add).map(|_| b'0' + (rng.below(40) as u8)));
        }
        data.extend_from_slice(&l);
        if rng.permille(crlf_pm) {
            faults.push(Fault::CrLf);
            data.push(b'\r');
        }
        data.push(b'\n');
    }
    // end of stream: with or without a terminating newline, possibly EOF in mid-line
    match rng.below(4) {
        0 => {
            if data.last() == Some(&b'\n') {
                data.pop();
            }
        }
        1 => {
            if !data.is_empty() {
                faults.push(Fault::EofMidLine);
                let cut = rng.below(data.len().min(60) + 1);
                data.truncate(data.len() - cut);
            }
        }
        _ => {}
    }
    // I/O schedule
    let mode = rng.below(6);
    let eintr_pm = *rng.pick(&[0u32, 0, 50, 200, 500]);
    let mut steps: Vec<usize> = Vec::new();
    let mut covered = 0usize;
    let mut guard = 0;
    while covered < data.len() && guard < 100_000 {
        guard += 1;
        if rng.permille(eintr_pm) {
            steps.push(0);
            faults.push(Fault::Eintr);
            continue;
        }
        let rest = data.len() - covered;
        let n = match mode {
            0 => rest,
            1 => 1,
            2 => rng.range(1, 7),
            3 => rng.range(1, 200),
            4 => {
                // up to and including the next newline (boundary exactly at newline)
                match data[covered..].iter().position(|&b| b == b'\n') {
                    Some(p) => p + 1,
                    None => rest,
                }
            }
            _ => {
                // up to just before the next newline (boundary between CR and LF when CRLF)
                match data[covered..].iter().position(|&b| b == b'\n') {
                    Some(0) => 1,
                    Some(p) => p,
                    None => rest,
                }
            }
        }
        .min(rest)
        .max(1);
        if n < rest {
            faults.push(Fault::ShortRead);
        }
        steps.push(n);
        covered += n;
    }
    // EINTR may also arrive when only EOF is left
    if rng.permille(eintr_pm) {
        steps.push(0);
        faults.push(Fault::Eintr);
    }
    (
        StreamSpec { data, steps, faults },
        format!(
            "stream: io_mode={} eintr_pm={} high_pm={} empty_pm={} crlf_pm={} | {}",
            mode, eintr_pm, high_pm, empty_pm, crlf_pm, desc
        ),
    )
}

fn gen_long_stream(rng: &mut Rng) -> (StreamSpec, String) {
    let (base, desc) = gen_stream(rng);
    let mut unit = base.data.clone();
    if unit.last() != Some(&b'\n') {
        unit.push(b'\n');
    }
    // no giant lines in the unit: the point here is the number of lines
    let unit: Vec<u8> = unit.split(|&b| b == b'\n').filter(|l| l.len() <= 2000).flat_map(|l| l.iter().copied().chain(std::iter::once(b'\n'))).collect();
    let per = unit.iter().filter(|&&b| b == b'\n').count().max(1);
    let target = rng.range(20_000, 70_000);
    let mut data: Vec<u8> = Vec::with_capacity(unit.len() * (target / per + 1));
    let mut lines = 0;
    while lines < target && data.len() < 12_000_000 {
        data.extend_from_slice(&unit);
        lines += per;
    }
    if rng.ratio(1, 3) {
        data.pop(); // no final newline
    }
    // I/O schedule: whole stream, pipe-sized reads, or small irregular reads with some EINTR
    let mode = rng.below(3);
    let mut steps: Vec<usize> = Vec::new();
    let mut covered = 0usize;
    while covered < data.len() && steps.len() < 60_000 && mode != 0 {
        if mode == 2 && rng.ratio(1, 50) {
            steps.push(0);
            continue;
        }
        let n = if mode == 1 { *rng.pick(&[4096usize, 8192, 65536]) } else { rng.range(1, 3000) };
        steps.push(n);
        covered += n;
    }
    let mut faults = base.faults.clone();
    faults.push(Fault::ShortRead);
    (
        StreamSpec { data, steps, faults },
        format!("shape=many-lines lines={} io_mode={} | {}", lines, mode, desc),
    )
}

impl Prop for C20 {
    fn id(&self) -> &'static str {
        "C20"
    }

    fn generate(&self, seed: u64, run: u64) -> Scenario {
        // many-lines shape (one run in 5 000): 20 000 - 70 000 lines through one invocation of
        // the tool, for anything that grows, counts or recurses per line. Decided by a hash of
        // the seed that is independent of the run's own PRNG stream (other runs stay as they were).
        let mut h = seed ^ 0xc20_1095_c20_1095;
        let pick = crate::rng::splitmix64(&mut h);
        let mut rng = Rng::new(seed);
        let (stream, desc) = if pick % 5000 == 3 { gen_long_stream(&mut rng) } else { gen_stream(&mut rng) };
        Scenario {
            prop: "C20".into(),
            seed,
            run,
            nodes: 1,
            ops: vec![],
            stream: Some(stream),
            config: desc,
            hidden_faults: take_hidden_faults(),
        }
    }

    fn judge(&self, sc: &Scenario, st: Option<&mut Stats>) -> Option<Violation> {
        let s = sc.stream.as_ref()?;
        if sc.config.starts_with("e2e") || E2E_ONLY.load(std::sync::atomic::Ordering::Relaxed) {
            if let Some(st) = st {
                st.lines += split_lines(&s.data).len() as u64;
                st.judged += 1;
                st.probe("judged on the real executable (in-process seam bypassed)");
                let exp = expected(&s.data);
                let mut h = crate::rng::Fnv::default();
                for k in &exp.kinds {
                    *st.outcomes.entry(k).or_insert(0) += 1;
                    h.write_str(k);
                }
                if !exp.kinds.is_empty() {
                    st.histories.insert(h.0);
                }
            }
            return judge_e2e(&s.data, &s.steps);
        }
        let r = cli::run_cli(&s.data, &s.steps);
        if r.stats.stdin_opened == 0 && !s.data.is_empty() && r.panicked.is_none() {
            eprintln!(
                "check: HARNESS ERROR: the CLI did not obtain stdin through ais::lib::std::io (seam bypassed); \
                 the in-process runs would not exercise it"
            );
            std::process::exit(2);
        }
        if let Some(st) = st {
            st.lines += split_lines(&s.data).len() as u64;
            st.judged += 1;
            let exp = expected(&s.data);
            let mut h = crate::rng::Fnv::default();
            for k in &exp.kinds {
                *st.outcomes.entry(k).or_insert(0) += 1;
                h.write_str(k);
            }
            h.write_u64(r.stats.reads.min(64));
            h.write_u64(r.stats.eintr.min(8));
            if !exp.kinds.is_empty() {
                st.histories.insert(h.0);
            }
            let lines = split_lines(&s.data);
            let mut node = new_node(Build::Std);
            for (l, k) in lines.iter().zip(exp.kinds.iter()) {
                let high = l.iter().any(|&b| b >= 0x80);
                st.probe_if(high && (*k == "ErrNmea" || *k == "ErrChecksum"), "invalid UTF-8 on a rejected line");
                st.probe_if(high && *k == "Complete", "invalid UTF-8 inside a line that completes a message");
                st.probe_if(high && *k == "Incomplete", "invalid UTF-8 inside an accepted fragment");
                st.probe_if(l.is_empty(), "empty line");
                st.probe_if(l.last() == Some(&b'\r'), "line ending in CR (CRLF input)");
                st.probe_if(l.len() > 8192, "line longer than 8 KiB");
                let _ = &mut node;
            }
            st.probe_if(!s.data.is_empty() && s.data.last() != Some(&b'\n'), "missing final newline");
            st.probe_if(r.stats.eintr_mid_line > 0, "EINTR delivered in mid-line");
            st.probe_if(r.stats.eintr > 0, "EINTR delivered");
            st.probe_if(r.stats.one_byte_chunks > 0, "1-byte reads");
            st.probe_if(r.stats.chunk_ends_at_newline > 0, "read boundary exactly after a newline");
            st.probe_if(r.stats.chunk_splits_crlf > 0, "read boundary between CR and LF");
            st.probe_if(s.data.is_empty(), "empty stream");
            st.probe_if(lines.len() > 20_000, "more than 20 000 lines in one invocation");
            st.probe_if(r.consumed == r.total, "input consumed to the end");
        }
        judge_run(&s.data, &r.panicked, true, &r.stdout, &r.stderr, 0, "in-process")
    }
}

/// set when the CLI source no longer reaches stdin/stdout/stderr through the crate's own
/// `lib::std::io` seam (see `seam_probe`): every run is then judged on the real executable
pub static E2E_ONLY: std::sync::atomic::AtomicBool = std::sync::atomic::AtomicBool::new(false);

/// One fixed two-line stream through the in-process CLI. If that does not behave (no output
/// captured, stdin never opened) while the real executable handles the same stream correctly,
/// the seam has been bypassed by an edit of the tool - not a violation: fall back to the real
/// executable for every run. Returns a note for the evidence.
pub fn seam_probe() -> Option<String> {
    let data: &[u8] = b"!AIVDM,1,1,,A,403OtVAv6s5l1o?I``E`4I?02<34,0*21\nnoise\n";
    if !cli::HOSTED {
        E2E_ONLY.store(true, std::sync::atomic::Ordering::Relaxed);
        return Some(
            "the tool's source does not compile inside the simulator (it was built without the hosted CLI): all runs of this batch were judged on the real executable over OS pipes (no scripted chunking / EINTR)"
                .to_string(),
        );
    }
    let r = cli::run_cli(data, &[]);
    let inproc_ok = r.panicked.is_none()
        && r.stats.stdin_opened > 0
        && judge_run(data, &r.panicked, true, &r.stdout, &r.stderr, 0, "in-process").is_none();
    if inproc_ok {
        return None;
    }
    if judge_e2e(data, &[]).is_none() {
        E2E_ONLY.store(true, std::sync::atomic::Ordering::Relaxed);
        return Some(
            "the hosted CLI does not reach stdin/stdout/stderr through ais::lib::std::io any more while the real executable behaves: all runs of this batch were judged on the real executable over OS pipes (no scripted chunking / EINTR)"
                .to_string(),
        );
    }
    None
}

/// the real executable over real pipes, fed in the scenario's chunk sizes
pub fn run_real(data: &[u8], steps: &[usize]) -> Result<(bool, Vec<u8>, Vec<u8>, String), String> {
    let exe = std::env::var("AISSIM_REPO_BIN").map_err(|_| "AISSIM_REPO_BIN not set".to_string())?;
    let work = std::env::var("AISSIM_WORK").unwrap_or_else(|_| "/verif/target/work".into());
    let _ = std::fs::create_dir_all(&work);
    let tid = format!("{:?}", std::thread::current().id())
        .chars()
        .filter(|c| c.is_ascii_digit())
        .collect::<String>();
    let out_path = format!("{}/e2e-{}-{}.out", work, std::process::id(), tid);
    let err_path = format!("{}/e2e-{}-{}.err", work, std::process::id(), tid);
    let out_f = std::fs::File::create(&out_path).map_err(|e| e.to_string())?;
    let err_f = std::fs::File::create(&err_path).map_err(|e| e.to_string())?;
    let mut child = std::process::Command::new(&exe)
        .stdin(std::process::Stdio::piped())
        .stdout(out_f)
        .stderr(err_f)
        .spawn()
        .map_err(|e| format!("{}: {}", exe, e))?;
    {
        let mut stdin = child.stdin.take().unwrap();
        let mut pos = 0;
        for &n in steps.iter().filter(|&&n| n > 0) {
            if pos >= data.len() {
                break;
            }
            let end = (pos + n).min(data.len());
            if stdin.write_all(&data[pos..end]).is_err() {
                break; // the tool died: reported through its exit status
            }
            let _ = stdin.flush();
            pos = end;
        }
        if pos < data.len() {
            let _ = stdin.write_all(&data[pos..]);
        }
    }
    let status = child.wait().map_err(|e| e.to_string())?;
    let out = std::fs::read(&out_path).unwrap_or_default();
    let err = std::fs::read(&err_path).unwrap_or_default();
    let _ = std::fs::remove_file(&out_path);
    let _ = std::fs::remove_file(&err_path);
    Ok((status.success(), out, err, format!("{:?}", status)))
}

pub fn judge_e2e(data: &[u8], steps: &[usize]) -> Option<Violation> {
    match run_real(data, steps) {
        Err(e) => {
            eprintln!("check: HARNESS ERROR: cannot run the real aisparser: {}", e);
            std::process::exit(2);
        }
        Ok((ok, out, err, status)) => {
            if !ok {
                // a panicking tool writes its panic message to stderr; that is not a record
                return Some(Violation {
                    prop: "C20".into(),
                    clause: "tool-stops".into(),
                    at: 0,
                    build: "real-executable".into(),
                    detail: format!(
                        "the real aisparser executable ended with {} ; last stderr bytes: {:?}",
                        status,
                        crate::json::show(&err[err.len().saturating_sub(200)..])
                    ),
                    site: "exit-status".into(),
                });
            }
            judge_run(data, &None, ok, &out, &err, 0, "real-executable")
        }
    }
}

/// stream minimisation: drop lines, then simplify the I/O schedule
pub fn minimise_stream(prop: &dyn Prop, sc: &Scenario, want: &Violation) -> (Scenario, Violation) {
    let mut cur = sc.clone();
    let mut cur_v = want.clone();
    let same = |v: &Option<Violation>| matches!(v, Some(x) if x.clause == want.clause && x.site == want.site);
    let rebuild = |lines: &[Vec<u8>], trailing_newline: bool| -> Vec<u8> {
        let mut d = Vec::new();
        for (i, l) in lines.iter().enumerate() {
            d.extend_from_slice(l);
            if i + 1 < lines.len() || trailing_newline {
                d.push(b'\n');
            }
        }
        d
    };
    // 1. the whole stream in one read, no EINTR
    {
        let mut c = cur.clone();
        if let Some(s) = c.stream.as_mut() {
            s.steps.clear();
        }
        let v = prop.judge(&c, None);
        if same(&v) {
            cur = c;
            cur_v = v.unwrap();
        }
    }
    // 2. delta debugging over lines
    let data = cur.stream.as_ref().unwrap().data.clone();
    let trailing = data.last() == Some(&b'\n');
    let mut lines: Vec<Vec<u8>> = split_lines(&data).into_iter().map(|l| l.to_vec()).collect();
    let keep_steps = !cur.stream.as_ref().unwrap().steps.is_empty();
    if !keep_steps {
        let mut chunk = (lines.len() / 2).max(1);
        let mut budget = 3000;
        while chunk >= 1 && budget > 0 {
            let mut i = 0;
            let mut progress = false;
            while i < lines.len() && budget > 0 {
                let end = (i + chunk).min(lines.len());
                let mut cand = lines.clone();
                cand.drain(i..end);
                let mut c = cur.clone();
                c.stream.as_mut().unwrap().data = rebuild(&cand, trailing);
                budget -= 1;
                let v = prop.judge(&c, None);
                if same(&v) {
                    lines = cand;
                    cur = c;
                    cur_v = v.unwrap();
                    progress = true;
                    continue;
                }
                i += chunk;
            }
            if chunk == 1 && !progress {
                break;
            }
            if !progress {
                chunk /= 2;
            }
        }
        // 3. shorten the remaining lines from the right, byte-wise halving
        for li in 0..lines.len() {
            let mut len = lines[li].len();
            while len > 1 && budget > 0 {
                let try_len = len / 2;
                let mut cand = lines.clone();
                cand[li].truncate(try_len);
                let mut c = cur.clone();
                c.stream.as_mut().unwrap().data = rebuild(&cand, trailing);
                budget -= 1;
                let v = prop.judge(&c, None);
                if same(&v) {
                    lines = cand;
                    cur = c;
                    cur_v = v.unwrap();
                    len = try_len;
                } else {
                    break;
                }
            }
        }
    }
    cur.stream.as_mut().unwrap().faults.clear();
    (cur, cur_v)
}

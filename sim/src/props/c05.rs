//! C05 — in-order fragments reassemble to exactly the unfragmented message, whatever the
//! parser processed before and whatever benign traffic arrives in between (the liveness half
//! of reassembly: once faults stop, the next in-order group is delivered in exactly n lines).

use super::*;

pub struct C05;

fn benign_line(rng: &mut Rng, next: &SentHdr, prev: Option<&SentHdr>, pcfg: &PayloadCfg) -> (Vec<u8>, bool, Vec<Fault>) {
    let addr: [u8; 5] = *rng.pick(&[*b"AIVDM", *b"AIVDO", *b"BSVDM", *b"ABVDM"]);
    if rng.ratio(1, 4) {
        // a composed candidate (see `composed_line`); if the real parser takes it for a
        // fragment the scenario is abandoned by the premise check, otherwise it is benign
        let base = match prev {
            Some(p) => (p.n, p.k, p.id),
            None => (next.n, 0, next.id),
        };
        let line = composed_line(rng, base);
        // not benign by construction: an opener (it restarts the group), and a line that carries
        // the group's id and the very number expected next - that *is* the group's next fragment,
        // whatever count it announces, and when its payload then fails to decode it comes back
        // as an error although it has legitimately consumed the group
        let num = |f: Option<&[u8]>| f.and_then(|b| std::str::from_utf8(b).ok()).and_then(|t| t.parse::<u32>().ok());
        let excluded = match lex(&line).filter(|lx| lx.fields.len() == 7) {
            Some(lx) => {
                let n = num(lx.field(&line, 1));
                let k = num(lx.field(&line, 2));
                let idf = lx.field(&line, 3).unwrap_or(b"");
                let id = if idf.is_empty() { Some(None) } else { num(Some(idf)).map(|v| Some(v as u8)) };
                let opener = k == Some(1) && n != Some(1);
                let continuation = k == Some(next.k as u32) && id == Some(next.id);
                opener || continuation
            }
            None => false,
        };
        if !excluded {
            return (line, rng.ratio(1, 2), vec![Fault::RewriteHeader]);
        }
    }
    match rng.below(8) {
        0 | 1 => {
            // unfragmented sentence from another station; sometimes with the very same id
            let pl = gen_payload(rng, pcfg);
            let id = match rng.below(3) {
                0 => next.id,
                1 => Some(rng.below(10) as u8),
                _ => None,
            };
            (make_line(&addr, 1, 1, id, b"B", &pl.chars, pl.fill), rng.ratio(2, 3), vec![])
        }
        2 => {
            // unfragmented sentence whose payload does not decode
            let chars: Vec<u8> = match rng.below(3) {
                0 => b"0".to_vec(),
                1 => b"1X".to_vec(),
                _ => vec![armor_char(*rng.pick(&[0u8, 22, 23, 25, 26, 28, 40, 63])), b'0', b'0'],
            };
            (make_line(&addr, 1, 1, next.id, b"A", &chars, 0), true, vec![])
        }
        3 => (noise_line(rng), rng.ratio(1, 2), vec![Fault::Noise]),
        4 => {
            // bad-checksum copy of the next expected fragment
            let mut a = [0u8; 5];
            a.copy_from_slice(&next.addr);
            let line = make_line(&a, next.n, next.k, next.id, &next.chan, &next.piece, next.fill);
            let lx = lex(&line).unwrap();
            let bad = (lx.value.unwrap() + 1 + rng.below(255) as u32) % 256;
            (with_checksum(&line, &lx, bad, 2, true), rng.ratio(1, 2), vec![Fault::BadChecksum])
        }
        5 => {
            // bad-checksum opener (would reset the group if the gate were bypassed)
            let line = make_line(&addr, next.n.max(2), 1, next.id, b"A", b"5", 0);
            let lx = lex(&line).unwrap();
            let bad = (lx.value.unwrap() + 1 + rng.below(255) as u32) % 256;
            (with_checksum(&line, &lx, bad, 2, true), rng.ratio(1, 2), vec![Fault::BadChecksum])
        }
        6 => {
            // fragment of another id (k >= 2): cannot continue the open group
            let other = match next.id {
                Some(v) => {
                    if rng.ratio(1, 4) {
                        None
                    } else {
                        Some((v % 10 + 1 + rng.below(8) as u8) % 10)
                    }
                }
                None => Some(rng.below(10) as u8),
            };
            let other = if other == next.id { Some(next.id.unwrap_or(0).wrapping_add(1)) } else { other };
            // sometimes with the very number the open group expects next, sometimes over-long
            let k = if rng.ratio(1, 3) { next.k.max(2) } else { rng.range(2, 9) as u8 };
            let n = k.max(rng.range(2, 9) as u8);
            let payload: Vec<u8> = if rng.ratio(1, 4) {
                (0..rng.range(385, 450)).map(|_| armor_char(rng.below(64) as u8)).collect()
            } else {
                b"w7b".to_vec()
            };
            (make_line(&addr, n, k, other, b"A", &payload, 0), rng.ratio(1, 2), vec![Fault::RewriteHeader])
        }
        _ => {
            // same id, but not the next number: a duplicate of the previous fragment, or a skip
            match prev {
                Some(p) => {
                    let k = if rng.ratio(1, 2) { p.k } else { p.k.saturating_add(2) };
                    if k < 2 {
                        // a duplicate of fragment 1 would be an opener: not benign
                        (noise_line(rng), false, vec![Fault::Noise])
                    } else {
                        let n = next.n.max(k);
                        let payload: Vec<u8> = if rng.ratio(1, 4) {
                            (0..rng.range(385, 450)).map(|_| armor_char(rng.below(64) as u8)).collect()
                        } else {
                            b"w7b".to_vec()
                        };
                        (make_line(&addr, n, k, next.id, b"A", &payload, 0), rng.ratio(1, 2), vec![Fault::Dup])
                    }
                }
                None => (noise_line(rng), false, vec![Fault::Noise]),
            }
        }
    }
}

impl Prop for C05 {
    fn id(&self) -> &'static str {
        "C05"
    }

    fn generate(&self, seed: u64, run: u64) -> Scenario {
        let mut rng = Rng::new(seed);
        // phase 1: arbitrary prior traffic over a faulty link
        let prior = rng.below(6);
        let (mut ops, desc) = match prior {
            0 => (Vec::new(), "prior=fresh".to_string()),
            _ => {
                let profile = *rng.pick(&[LinkProfile::Chaos, LinkProfile::Reassembly, LinkProfile::Corruption]);
                let reassembly = rng.ratio(2, 3);
                let (ops, _, d) = chaos_ops(&mut rng, profile, reassembly, 1, 30);
                (ops, format!("prior=chaos {}", d))
            }
        };
        // phase 2: the heal group
        let pcfg = PayloadCfg::swarm(&mut rng);
        let n = *rng.pick(&[2usize, 2, 2, 3, 3, 4, 5, 6, 7, 8, 9]);
        let mut payload = gen_payload(&mut rng, &pcfg);
        while payload.chars.len() < n {
            payload.chars.push(armor_char(rng.below(64) as u8));
        }
        let mut station = Station::random(&mut rng, false);
        station.id_policy = match rng.below(5) {
            0 => IdPolicy::Absent,
            1 | 2 => IdPolicy::Fixed(rng.below(10) as u8),
            3 => {
            let any = rng.range(10, 255) as u8;
            IdPolicy::Fixed(*rng.pick(&[10u8, 99, 100, 255, 255, any]))
        }
            _ => IdPolicy::SmallPool,
        };
        // a deliberately chosen prior state right before the group
        let id_peek = station.id_policy.clone();
        let prior_state = rng.below(6);
        let peek_id = match id_peek {
            IdPolicy::Fixed(v) => Some(v),
            _ => None,
        };
        match prior_state {
            0 => {
                // an open, abandoned group with the same id
                ops.push(Op::Line(LineOp::plain(0, make_line(b"AIVDM", 3, 1, peek_id, b"A", b"1234", 0), false)));
                ops.push(Op::Line(LineOp::plain(0, make_line(b"AIVDM", 3, 2, peek_id, b"A", b"5678", 0), false)));
            }
            1 => {
                // an open group with another id
                let other = Some(peek_id.map(|v| v.wrapping_add(1)).unwrap_or(4));
                ops.push(Op::Line(LineOp::plain(0, make_line(b"AIVDM", 2, 1, other, b"B", b"1234", 0), false)));
            }
            2 => {
                // a group with the same id that was just delivered
                ops.push(Op::Line(LineOp::plain(0, make_line(b"AIVDM", 2, 1, peek_id, b"A", b"1234", 0), false)));
                ops.push(Op::Line(LineOp::plain(0, make_line(b"AIVDM", 2, 2, peek_id, b"A", b"5678", 0), rng.ratio(1, 2))));
            }
            3 => ops.push(Op::Restart { node: 0 }),
            _ => {}
        }
        let lines = station.emit(&mut rng, 0, 0, &payload, n);
        let decode_final = rng.ratio(3, 4);
        let benign_pm = *rng.pick(&[0u32, 300, 600, 900]);
        let mut benign_count = 0;
        let sent: Vec<SentHdr> = lines
            .iter()
            .map(|e| SentHdr {
                addr: e.hdr.addr.to_vec(),
                n: e.hdr.n,
                k: e.hdr.k,
                id: e.hdr.id,
                chan: e.hdr.chan.clone(),
                fill: e.hdr.fill,
                piece: e.piece.clone(),
            })
            .collect();
        for (idx, e) in lines.iter().enumerate() {
            if idx > 0 {
                let mut guard = 0;
                while rng.permille(benign_pm) && guard < 3 {
                    guard += 1;
                    let (bytes, decode, faults) = benign_line(&mut rng, &sent[idx], Some(&sent[idx - 1]), &pcfg);
                    let mut b = LineOp::plain(0, bytes, decode);
                    b.role = Role::Benign;
                    b.faults = faults;
                    b.conv_result = rng.ratio(1, 2);
                    ops.push(Op::Line(b));
                    benign_count += 1;
                }
            }
            let last = idx + 1 == lines.len();
            let mut l = LineOp::plain(0, e.bytes.clone(), if last { decode_final } else { rng.ratio(1, 2) });
            l.role = Role::Heal { idx };
            l.form_ok = true;
            l.conv_result = rng.ratio(1, 2);
            l.sent = Some(sent[idx].clone());
            ops.push(Op::Line(l));
        }
        Scenario {
            prop: "C05".into(),
            seed,
            run,
            nodes: 1,
            ops,
            stream: None,
            hidden_faults: take_hidden_faults(),
            config: format!(
                "{} prior_state={} heal: n={} id={:?} payload_len={} type={} fill={} benign={} decode_final={}",
                desc,
                prior_state,
                lines.len(),
                lines[0].hdr.id,
                payload.chars.len(),
                payload.ty,
                payload.fill,
                benign_count,
                decode_final
            ),
        }
    }

    fn droppable(&self, sc: &Scenario, i: usize) -> bool {
        !matches!(&sc.ops[i], Op::Line(l) if matches!(l.role, Role::Heal { .. }))
    }

    fn simplify(&self, sc: &Scenario, i: usize) -> Vec<Op> {
        match &sc.ops[i] {
            Op::Line(l) if matches!(l.role, Role::Heal { .. }) => {
                let mut v = Vec::new();
                if l.decode {
                    let mut c = l.clone();
                    c.decode = false;
                    v.push(Op::Line(c));
                }
                v
            }
            _ => default_simplify(sc, i),
        }
    }

    fn judge(&self, sc: &Scenario, mut st: Option<&mut Stats>) -> Option<Violation> {
        ABANDONED.with(|a| a.set(false));
        let v = judge_build(sc, Build::Std, &mut st).or_else(|| judge_build(sc, Build::Alloc, &mut None));
        if v.is_some() {
            return v;
        }
        // a scenario whose premise failed on the std build (an inserted line was taken for a
        // fragment) is no scenario for the no-alloc build either, even if that build happens to
        // reject the line - for capacity, which is not one of the benign kinds
        if ABANDONED.with(|a| a.get()) {
            return None;
        }
        // the no-alloc build too, whenever the heal group stays within its fixed capacities
        // (384 payload bytes per line and per group; 119 bytes of binary data, 20 characters
        // of text when the final fragment is decoded) - beyond them it may reject (C18)
        let mut total: Vec<u8> = Vec::new();
        let mut decode_final = false;
        let mut final_fill = 0u8;
        for op in &sc.ops {
            if let Op::Line(l) = op {
                if let (Role::Heal { .. }, Some(s)) = (&l.role, &l.sent) {
                    total.extend_from_slice(&s.piece);
                    decode_final = l.decode;
                    final_fill = s.fill;
                }
            }
        }
        if total.len() <= super::c18::CAP_PAYLOAD
            && !(decode_final && super::c18::decode_capacity_exceeded(&total, final_fill).is_some())
        {
            if let Some(st) = st.as_deref_mut() {
                st.probe("no-alloc build judged too (heal group within its capacities)");
            }
            return judge_build(sc, Build::None, &mut None);
        }
        // (how much is left to C18 is counted, so that the evidence shows the exempted region)
        if let Some(st) = st.as_deref_mut() {
            st.probe("no-alloc build not judged: heal group beyond its capacities (C18's ground)");
        }
        None
    }
}

fn judge_build(sc: &Scenario, build: Build, st: &mut Option<&mut Stats>) -> Option<Violation> {
    let heal: Vec<(usize, &LineOp)> = sc
        .ops
        .iter()
        .enumerate()
        .filter_map(|(i, o)| match o {
            Op::Line(l) if matches!(l.role, Role::Heal { .. }) => Some((i, l)),
            _ => None,
        })
        .collect();
    if heal.len() < 2 {
        return None;
    }
    let total: Vec<u8> = heal
        .iter()
        .flat_map(|(_, l)| l.sent.as_ref().unwrap().piece.iter().copied())
        .collect();
    // Premise, decided by the real code: the *rendering* of every heal fragment (tag block,
    // delimiter, number padding, checksum digits, trailing bytes ...) is one this code accepts at
    // all - asked of a fresh parser with the header of an unfragmented sentence in place of the
    // fragment's own. Which renderings are well-formed is the sentence grammar's business (C08),
    // not the reassembler's; sequence ids, counts and numbers stay in C05's own hands.
    for (_, l) in &heal {
        let accepted = match reheaded_unfragmented(&l.bytes) {
            Some(probe) => matches!(new_node(build).parse(&probe, false, false), Outcome::Complete(ref s, _) if s.n == 1),
            None => false,
        };
        if !accepted {
            if let Some(st) = st.as_deref_mut() {
                st.premise_failed += 1;
                st.probe("heal fragment's rendering is not accepted even as an unfragmented sentence (grammar: not judged)");
            }
            ABANDONED.with(|a| a.set(true));
            return None;
        }
    }
    let first_heal = heal[0].0;
    let last_heal = heal[heal.len() - 1].0;
    let mut result: Option<Violation> = None;
    let mut abandoned = false;
    let mut abs = AbsNode::default();
    let st_ref = std::cell::RefCell::new(st);
    let abs_ref = std::cell::RefCell::new(&mut abs);
    let mut prior_class: &'static str = "fresh";
    run_lines(
        build,
        sc,
        |i, l, out, _node| {
            let mut stg = st_ref.borrow_mut();
            if let Some(st) = stg.as_deref_mut() {
                st.lines += 1;
                st.outcome(out);
                if i == first_heal {
                    let a = abs_ref.borrow();
                    prior_class = if i == 0 {
                        "fresh"
                    } else if a.open && a.id == l.sent.as_ref().unwrap().id {
                        "open group, same id"
                    } else if a.open {
                        "open group, other id"
                    } else {
                        "no open group"
                    };
                    st.dyn_probe(format!("heal group starts in state: {}", prior_class));
                }
                abs_ref.borrow_mut().observe(&l.bytes, out, st);
            }
            let fail = |clause: &str, detail: String| Violation {
                prop: "C05".into(),
                clause: clause.into(),
                at: i,
                build: build.name().into(),
                detail: format!(
                    "{} — line {:?} answered {}",
                    detail,
                    crate::json::show(&l.bytes),
                    out.brief()
                ),
                site: clause.into(),
            };
            match &l.role {
                Role::Benign => {
                    // the premise is checked, not assumed
                    let ok = match out {
                        Outcome::ErrNmea(_) | Outcome::ErrChecksum { .. } => true,
                        Outcome::Complete(s, _) => s.n == 1,
                        _ => false,
                    };
                    if !ok {
                        abandoned = true;
                        return false;
                    }
                    if let Some(st) = stg.as_deref_mut() {
                        st.probe("benign line between heal fragments");
                    }
                    true
                }
                Role::Heal { idx } => {
                    let s = l.sent.as_ref().unwrap();
                    let last = i == last_heal;
                    let chan = s.chan.first().map(|&b| b as char);
                    // talker / report type: what a fresh real parser says for the same address
                    let mut addr = [0u8; 5];
                    addr.copy_from_slice(&s.addr);
                    let mut fresh = new_node(build);
                    let reference = fresh.parse(&make_line(&addr, 1, 1, None, b"A", b"1", 0), false, false);
                    let (ref_talker, ref_report) = match reference.accepted() {
                        Some(r) => (Some(r.talker.clone()), Some(r.report.clone())),
                        None => (None, None),
                    };
                    let check_hdr = |got: &Sent| -> Option<String> {
                        if got.n != s.n {
                            return Some(format!("num_fragments {} != sent {}", got.n, s.n));
                        }
                        if got.k != s.k {
                            return Some(format!("fragment_number {} != sent {}", got.k, s.k));
                        }
                        if got.id != s.id {
                            return Some(format!("message_id {:?} != sent {:?}", got.id, s.id));
                        }
                        if got.channel != chan {
                            return Some(format!("channel {:?} != sent {:?}", got.channel, chan));
                        }
                        if got.fill != s.fill {
                            return Some(format!("fill_bit_count {} != sent {}", got.fill, s.fill));
                        }
                        if let Some(t) = &ref_talker {
                            if &got.talker != t {
                                return Some(format!("talker {} != {} (unfragmented reference)", got.talker, t));
                            }
                        }
                        if let Some(r) = &ref_report {
                            if &got.report != r {
                                return Some(format!("report type {} != {} (unfragmented reference)", got.report, r));
                            }
                        }
                        None
                    };
                    if let Some(st) = stg.as_deref_mut() {
                        st.judged += 1;
                    }
                    if !last {
                        match out {
                            Outcome::Incomplete(got, conv) => {
                                if let Some(why) = check_hdr(got) {
                                    result = Some(fail("incomplete-fields-differ", format!("fragment {} of {}: {}", s.k, s.n, why)));
                                    return false;
                                }
                                if got.data != s.piece {
                                    result = Some(fail(
                                        "incomplete-fields-differ",
                                        format!(
                                            "fragment {} of {}: data {:?} is not the fragment's own payload {:?}",
                                            s.k,
                                            s.n,
                                            crate::json::show(&got.data),
                                            crate::json::show(&s.piece)
                                        ),
                                    ));
                                    return false;
                                }
                                if got.message.is_some() {
                                    result = Some(fail("incomplete-fields-differ", format!("fragment {} of {} carries a decoded message", s.k, s.n)));
                                    return false;
                                }
                                if *conv != Conv::Nothing {
                                    result = Some(fail(
                                        "conversion-wrong",
                                        format!("converting the Incomplete result of fragment {} of {} to Option/Result yielded a sentence", s.k, s.n),
                                    ));
                                    return false;
                                }
                            }
                            _ => {
                                result = Some(fail(
                                    "in-order-fragment-not-incomplete",
                                    format!(
                                        "in-order fragment {} of {} (index {}) of a group opened by its fragment 1 was not answered with Incomplete",
                                        s.k, s.n, idx
                                    ),
                                ));
                                return false;
                            }
                        }
                        return true;
                    }
                    // the last fragment
                    let mut refnode = new_node(build);
                    let ref_line = make_line(&addr, 1, 1, s.id, &s.chan, &total, s.fill);
                    let ref_out = refnode.parse(&ref_line, l.decode, false);
                    if let Some(st) = stg.as_deref_mut() {
                        st.dyn_probe(format!("heal group n={}", s.n));
                        st.dyn_probe(format!(
                            "heal id class: {}",
                            match s.id {
                                None => "absent",
                                Some(0..=9) => "0-9",
                                Some(_) => "multi-digit",
                            }
                        ));
                        st.probe_if(s.fill > 0, "heal group with non-zero final fill");
                        st.probe_if(
                            heal.iter().any(|(_, h)| {
                                let hs = h.sent.as_ref().unwrap();
                                hs.chan != s.chan || hs.addr != s.addr
                            }),
                            "heal group whose fragments differ in channel, talker or sentence type",
                        );
                        st.probe_if(matches!(ref_out, Outcome::ErrNmea(_)), "heal group whose payload does not decode");
                        st.probe_if(matches!(&ref_out, Outcome::Complete(r, _) if r.message.is_some()), "heal group decoded and compared with unfragmented reference");
                        st.histories.insert({
                            let mut h = crate::rng::Fnv::default();
                            h.write_u64(abs_ref.borrow().history_hash());
                            h.0
                        });
                    }
                    match (out, &ref_out) {
                        (Outcome::Complete(got, conv), Outcome::Complete(r, _)) => {
                            // Of the Complete the statement fixes the payload, the decoded message
                            // and the conversions - not the header fields (they are C07's, which is
                            // not claimed). A difference there is counted, not judged.
                            if check_hdr(got).is_some() {
                                if let Some(st) = stg.as_deref_mut() {
                                    st.probe("header fields of the Complete differ from the last fragment's (hint only)");
                                }
                            }
                            if got.data != total {
                                result = Some(fail(
                                    "reassembled-payload-differs",
                                    format!(
                                        "reassembled payload {:?} is not the concatenation of the fragments {:?}",
                                        crate::json::show(&got.data),
                                        crate::json::show(&total)
                                    ),
                                ));
                                return false;
                            }
                            if got.message != r.message {
                                result = Some(fail(
                                    "reassembled-message-differs",
                                    format!(
                                        "decoded message {:?} differs from the unfragmented decode {:?}",
                                        got.message, r.message
                                    ),
                                ));
                                return false;
                            }
                            if !l.decode && got.message.is_some() {
                                result = Some(fail("reassembled-message-differs", "decoding was not requested but a message is present".into()));
                                return false;
                            }
                            if *conv != Conv::SomeSame {
                                result = Some(fail(
                                    "conversion-wrong",
                                    format!("converting the Complete result to Option/Result gave {:?}", conv),
                                ));
                                return false;
                            }
                        }
                        (Outcome::ErrNmea(_), Outcome::ErrNmea(_)) => {
                            // the payload itself does not decode: same category, nothing else demanded
                        }
                        (_, Outcome::Complete(..)) => {
                            result = Some(fail(
                                "final-fragment-not-complete",
                                format!(
                                    "the last in-order fragment {} of {} did not yield Complete although the same payload sent unfragmented is accepted",
                                    s.k, s.n
                                ),
                            ));
                            return false;
                        }
                        (_, Outcome::ErrNmea(_)) => {
                            result = Some(fail(
                                "final-fragment-outcome-differs-from-unfragmented",
                                format!(
                                    "the same payload sent unfragmented is rejected with {}, the reassembled one is not",
                                    ref_out.brief()
                                ),
                            ));
                            return false;
                        }
                        _ => {
                            // the reference itself misbehaved (panic, checksum error on a line
                            // this harness encoded): not this property's alarm
                            abandoned = true;
                            return false;
                        }
                    }
                    true
                }
                _ => true,
            }
        },
        |_i, _node| {
            if let Some(st) = st_ref.borrow_mut().as_deref_mut() {
                st.restarts += 1;
                abs_ref.borrow_mut().restart(st);
            }
        },
    );
    if abandoned {
        ABANDONED.with(|a| a.set(true));
        if let Some(st) = st_ref.borrow_mut().as_deref_mut() {
            st.premise_failed += 1;
        }
        return None;
    }
    result
}

thread_local! {
    /// did the last `judge_build` of this thread abandon its scenario (premise failed)?
    static ABANDONED: std::cell::Cell<bool> = const { std::cell::Cell::new(false) };
}

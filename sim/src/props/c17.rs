//! C17 — rejected lines and unfragmented sentences leave no trace; parser instances are
//! independent. Metamorphic over histories: the same history with and without one extra line.

use super::*;

pub struct C17;

const ADDR: &[u8; 5] = b"AIVDM";

/// executes the operations selected by `keep` and returns (op index, outcome) per line
fn exec(build: Build, nodes: usize, ops: &[Op], keep: impl Fn(usize, &Op) -> bool) -> (Vec<(usize, Outcome)>, Vec<String>) {
    let mut ns: Vec<Box<dyn Node>> = (0..nodes.max(1)).map(|_| new_node(build)).collect();
    let mut out = Vec::new();
    for (i, op) in ops.iter().enumerate() {
        if !keep(i, op) {
            continue;
        }
        match op {
            Op::Line(l) => {
                let n = l.node.min(ns.len() - 1);
                out.push((i, ns[n].parse(&l.bytes, l.decode, l.conv_result)));
            }
            Op::Restart { node } => {
                let n = (*node).min(ns.len() - 1);
                ns[n].restart();
            }
            _ => {}
        }
    }
    let states = ns.iter().map(|n| n.state()).collect();
    (out, states)
}

fn extra_line(rng: &mut Rng, h: &[Op], p: usize) -> (Vec<u8>, &'static str, Vec<Fault>) {
    // the most recent station line before p, if any: material for near-miss variants
    let recent: Option<&LineOp> = h[..p].iter().rev().find_map(|o| match o {
        Op::Line(l) if l.sent.is_some() => Some(l),
        _ => None,
    });
    let pcfg = PayloadCfg {
        w_len: [4, 1, 1, 0, 2],
        bad_char_pm: 0,
        unsupported_pm: 0,
        text_bias: false,
        types: vec![],
    };
    let big = |rng: &mut Rng| -> Vec<u8> {
        // a payload beyond the 384-byte capacity of the no-alloc build
        let n = rng.range(385, 460);
        (0..n).map(|_| armor_char(rng.below(64) as u8)).collect()
    };
    if rng.ratio(1, 3) {
        let base = match recent.and_then(|l| l.sent.as_ref()) {
            Some(sn) => (sn.n, sn.k, sn.id),
            None => (3, 1, Some(rng.below(10) as u8)),
        };
        return (composed_line(rng, base), "composed", vec![Fault::RewriteHeader]);
    }
    match rng.below(14) {
        10 => {
            // irregular numbering with a valid checksum: fragment 0, count 0, number beyond count
            let (n, k) = *rng.pick(&[(2u8, 0u8), (3, 0), (1, 0), (0, 1), (0, 0), (0, 2), (1, 2), (1, 3), (2, 3), (2, 255), (255, 0)]);
            let id = match rng.below(3) {
                0 => None,
                1 => recent.and_then(|l| l.sent.as_ref().unwrap().id),
                _ => Some(*rng.pick(&[0u8, 1, 9, 10, 255])),
            };
            (make_line(ADDR, n, k, id, b"A", b"15M", 0), "irregular-numbering", vec![Fault::RewriteHeader])
        }
        11 => {
            // an over-long fragment that does not continue the open group (wrong id, or the
            // right id with a wrong number, or the right number with a wrong id)
            let (n, k, id) = match recent.and_then(|l| l.sent.as_ref()) {
                Some(s) => match rng.below(3) {
                    0 => (s.n.max(3), s.k.saturating_add(1).max(2), Some(s.id.map(|v| ((v as u32 + 1) % 10) as u8).unwrap_or(3))),
                    1 => (s.n.max(s.k.saturating_add(2)), s.k.saturating_add(2), s.id),
                    _ => (s.n.max(2), s.k.max(2), s.id),
                },
                None => (3, 2, Some(rng.below(10) as u8)),
            };
            let p = big(rng);
            (make_line(ADDR, n, k, id, b"A", &p, 0), "oversize-out-of-sequence-fragment", vec![Fault::RewriteHeader])
        }
        13 => {
            // an over-long fragment that *would* continue (or open) the group, but is rejected
            // for its form (fill count out of range) or for its checksum
            let (n, k, id) = match recent.and_then(|l| l.sent.as_ref()) {
                Some(s) if s.k < s.n && rng.ratio(2, 3) => (s.n, s.k + 1, s.id),
                Some(s) => (s.n.max(2), 1, s.id),
                None => (2, 1, Some(rng.below(10) as u8)),
            };
            let p = big(rng);
            let line = make_line(ADDR, n, k, id, b"A", &p, 0);
            let lx = lex(&line).unwrap();
            if rng.ratio(1, 2) {
                let bad = (lx.value.unwrap() + 1 + rng.below(255) as u32) % 256;
                (with_checksum(&line, &lx, bad, 2, true), "oversize-bad-checksum-fragment", vec![Fault::BadChecksum])
            } else {
                let fill = *rng.pick(&[&b"6"[..], b"7", b"9", b"16", b""]);
                (rewrite_fields(&line, &lx, &[(6, fill.to_vec())]), "oversize-malformed-fragment", vec![Fault::Truncate])
            }
        }
        12 => {
            // an over-long unfragmented sentence
            let p = big(rng);
            (make_line(ADDR, 1, 1, None, b"B", &p, rng.below(6) as u8), "oversize-unfragmented", vec![])
        }
        9 => {
            // a valid fragment 1 with an unusual id or count: accepted by a correct parser
            // (then the premise fails and nothing is judged); a parser that rejects it for
            // some reason of its own must not have touched the open group
            let id = *rng.pick(&[None, Some(0u8), Some(9), Some(10), Some(25), Some(100), Some(255)]);
            let n = *rng.pick(&[2u8, 3, 9, 10, 100, 255]);
            (make_line(ADDR, n, 1, id, b"A", b"15M", 0), "valid-opener", vec![])
        }
        0 => (noise_line(rng), "noise", vec![Fault::Noise]),
        1 => {
            // unfragmented, decodable
            let pl = gen_payload(rng, &pcfg);
            let id = if rng.ratio(1, 2) { recent.and_then(|l| l.sent.as_ref().unwrap().id) } else { None };
            (make_line(ADDR, 1, 1, id, b"A", &pl.chars, pl.fill), "unfragmented-decodable", vec![])
        }
        2 => {
            // unfragmented, payload does not decode (unsupported type / bad armouring / too short)
            let chars: Vec<u8> = match rng.below(3) {
                0 => b"0".to_vec(),
                1 => b"1X".to_vec(),
                _ => vec![armor_char(*rng.pick(&[0u8, 22, 23, 25, 26, 28, 40, 63])), b'0', b'0'],
            };
            let id = if rng.ratio(1, 2) { recent.and_then(|l| l.sent.as_ref().unwrap().id) } else { None };
            (make_line(ADDR, 1, 1, id, b"B", &chars, 0), "unfragmented-undecodable", vec![])
        }
        3 | 4 => {
            // bad-checksum copy of what would be the next fragment, or of an opener
            let (n, k, id) = match recent.and_then(|l| l.sent.as_ref()) {
                Some(s) if s.k < s.n && rng.ratio(2, 3) => (s.n, s.k + 1, s.id),
                Some(s) => (s.n.max(2), 1, s.id),
                None => (2, 1, Some(rng.below(10) as u8)),
            };
            let line = make_line(ADDR, n, k, id, b"A", b"15M", 0);
            let lx = lex(&line).unwrap();
            let good = lx.value.unwrap();
            let bad = (good + 1 + rng.below(255) as u32) % 256;
            (with_checksum(&line, &lx, bad, 2, true), "bad-checksum-fragment", vec![Fault::BadChecksum])
        }
        5 | 6 => {
            // out-of-sequence fragment with a valid checksum: duplicate / skip / other id / orphan
            let (n, k, id) = match recent.and_then(|l| l.sent.as_ref()) {
                Some(s) => {
                    let n = s.n.max(3);
                    match rng.below(4) {
                        0 => (n, s.k.max(2), s.id),                      // duplicate (or k=2 after k=1.. see premise)
                        1 => (n.max(s.k.saturating_add(2)), s.k.saturating_add(2), s.id), // skip ahead
                        2 => (n, s.k.saturating_add(1).max(2), Some(s.id.map(|v| ((v as u32 + 1) % 10) as u8).unwrap_or(3))), // other id
                        _ => (9, 9, s.id),
                    }
                }
                None => (3, 2, Some(rng.below(10) as u8)),
            };
            (make_line(ADDR, n, k, id, b"A", b"w7b", 0), "out-of-sequence-fragment", vec![Fault::RewriteHeader])
        }
        7 => {
            // a station line with one corruption
            match recent {
                Some(l) => {
                    let mut b = l.bytes.clone();
                    if !b.is_empty() {
                        let i = rng.below(b.len());
                        b[i] ^= 1 << rng.below(7);
                    }
                    (b, "mutated-sentence", vec![Fault::FlipBit])
                }
                None => (noise_line(rng), "noise", vec![Fault::Noise]),
            }
        }
        _ => {
            // malformed near-misses of the grammar
            let base = make_line(ADDR, 2, 2, recent.and_then(|l| l.sent.as_ref().unwrap().id), b"A", b"15M", 0);
            let b: Vec<u8> = match rng.below(5) {
                0 => base[1..].to_vec(),
                1 => base[..base.len() - 3].to_vec(),
                2 => {
                    let mut v = base.clone();
                    v.insert(7, b',');
                    v
                }
                3 => String::from_utf8_lossy(&base).replace(",0*", ",6*").into_bytes(),
                _ => String::from_utf8_lossy(&base).replace("AIVDM,2,2", "AIVDM,256,2").into_bytes(),
            };
            (b, "malformed", vec![Fault::Truncate])
        }
    }
}

thread_local! {
    static NOT_IN_CLASS_NONE: std::cell::Cell<u32> = const { std::cell::Cell::new(0) };
}

/// how often the concurrent scenario is repeated natively (real OS threads: the kernel decides
/// the interleaving there, so one round proves little); raised for minimisation and replay.
/// Under Miri one round: Miri's seeded scheduler decides every preemption, and its race
/// detector needs no lucky timing.
pub static THREAD_ROUNDS: std::sync::atomic::AtomicUsize = std::sync::atomic::AtomicUsize::new(6);

pub fn set_thread_rounds(n: usize) {
    THREAD_ROUNDS.store(n, std::sync::atomic::Ordering::Relaxed);
}

/// concurrent shape: 2-3 parsers, each with its own stream, each driven from its own thread
fn generate_threads(seed: u64, run: u64) -> Scenario {
    let mut rng = Rng::new(seed ^ 0x5eed_0f_7c17);
    let (ops, nodes, desc) = chaos_ops(&mut rng, LinkProfile::Reassembly, true, 3, 36);
    let nodes = nodes.max(2);
    // deal the lines over the nodes by group, so that every thread has fragments to reassemble
    let ops: Vec<Op> = ops
        .into_iter()
        .map(|o| match o {
            Op::Line(mut l) => {
                l.node = match &l.sent {
                    Some(s) => (s.id.unwrap_or(0) as usize + s.n as usize + s.piece.len() % 2) % nodes,
                    None => l.node % nodes,
                };
                Op::Line(l)
            }
            o => o,
        })
        .collect();
    Scenario {
        prop: "C17".into(),
        seed,
        run,
        nodes,
        ops,
        stream: None,
        hidden_faults: take_hidden_faults(),
        config: format!("shape=threads {}", desc),
    }
}

/// one node's stream against a fresh parser of `build`
fn run_stream(build: Build, stream: &[(usize, &Op)]) -> Vec<(usize, Outcome)> {
    let mut n = new_node(build);
    let mut out = Vec::with_capacity(stream.len());
    for (i, op) in stream {
        match op {
            Op::Line(l) => out.push((*i, n.parse(&l.bytes, l.decode, l.conv_result))),
            Op::Restart { .. } => n.restart(),
            _ => {}
        }
    }
    out
}

fn run_stream_ticketed(build: Build, stream: &[(usize, &Op)], before: &mut dyn FnMut(usize)) -> Vec<(usize, Outcome)> {
    let mut n = new_node(build);
    let mut out = Vec::with_capacity(stream.len());
    for (i, op) in stream {
        match op {
            Op::Line(l) => {
                before(*i);
                out.push((*i, n.parse(&l.bytes, l.decode, l.conv_result)));
            }
            Op::Restart { .. } => n.restart(),
            _ => {}
        }
    }
    out
}

/// Independence under real concurrency: every node's stream is run on its own OS thread, all at
/// the same time (barrier start), and each thread's log must equal the log of the same stream
/// run alone. Natively the kernel schedules the threads (repeated rounds; confirmation only);
/// under Miri (thorough tier) the interleaving is a function of -Zmiri-seed and data races on
/// shared statics are reported whatever the timing.
fn judge_threads(sc: &Scenario, build: Build, st: &mut Option<&mut Stats>) -> Option<Violation> {
    use std::sync::atomic::{AtomicBool, Ordering};
    let nodes = sc.nodes.max(2);
    let streams: Vec<Vec<(usize, &Op)>> = (0..nodes)
        .map(|node| {
            sc.ops
                .iter()
                .enumerate()
                .filter(|(_, o)| match o {
                    Op::Line(l) => l.node.min(nodes - 1) == node,
                    Op::Restart { node: n } => (*n).min(nodes - 1) == node,
                    _ => false,
                })
                .collect()
        })
        .collect();
    let solo: Vec<Vec<(usize, Outcome)>> = streams.iter().map(|s| run_stream(build, s)).collect();
    let rounds = if cfg!(miri) { 1 } else { THREAD_ROUNDS.load(Ordering::Relaxed).max(1) };
    let barrier = std::sync::Barrier::new(nodes);
    let stop = AtomicBool::new(false);
    let diverged: std::sync::Mutex<Option<(usize, usize, Outcome, Outcome, usize)>> = std::sync::Mutex::new(None);
    let rounds_done = std::sync::atomic::AtomicUsize::new(0);
    // observed interleaving: a ticket is drawn before every parse call (Relaxed: it must not add
    // happens-before edges between the threads, or Miri's race detector would be blinded)
    let ticket = std::sync::atomic::AtomicUsize::new(0);
    let orders: std::sync::Mutex<Vec<(usize, usize, u8)>> = std::sync::Mutex::new(Vec::new());
    std::thread::scope(|scope| {
        for node in 0..nodes {
            let (streams, solo, barrier, stop, diverged, rounds_done, ticket, orders) = (&streams, &solo, &barrier, &stop, &diverged, &rounds_done, &ticket, &orders);
            scope.spawn(move || {
                let mut mine: Vec<(usize, usize, u8)> = Vec::new();
                for round in 0..rounds {
                    // two barriers per round: `stop` is written only between the first and the
                    // second and read only between the second and the next first, so that all
                    // threads take the same decision and nobody waits alone
                    barrier.wait();
                    let log = run_stream_ticketed(build, &streams[node], &mut |_i| {
                        mine.push((round, ticket.fetch_add(1, Ordering::Relaxed), node as u8));
                    });
                    if node == 0 {
                        rounds_done.fetch_add(1, Ordering::Relaxed);
                    }
                    if let Some(((i, got), (_, want))) = log.iter().zip(solo[node].iter()).find(|(a, b)| a.1 != b.1) {
                        let mut d = diverged.lock().unwrap();
                        if d.is_none() {
                            *d = Some((node, *i, got.clone(), want.clone(), round));
                        }
                        stop.store(true, Ordering::Release);
                    }
                    barrier.wait();
                    if stop.load(Ordering::Acquire) {
                        break;
                    }
                }
                orders.lock().unwrap().extend(mine);
            });
        }
    });
    if let Some(st) = st.as_deref_mut() {
        st.judged += 1;
        st.probe("concurrent scenario judged (one OS thread per parser)");
        // one hash per round: the sequence of thread ids in ticket order
        let mut o = orders.into_inner().unwrap();
        o.sort_unstable();
        let mut cur_round = usize::MAX;
        let mut h = crate::rng::Fnv::default();
        let mut any = false;
        for (round, _t, node) in o {
            if round != cur_round {
                if any {
                    st.interleavings.insert(h.0);
                }
                h = crate::rng::Fnv::default();
                cur_round = round;
            }
            h.write(&[node]);
            any = true;
        }
        if any {
            st.interleavings.insert(h.0);
        }
        *st.dyn_probes.entry("concurrent rounds executed".to_string()).or_insert(0) += rounds_done.load(Ordering::Relaxed) as u64;
    }
    let d = diverged.into_inner().unwrap();
    d.map(|(node, at, got, want, round)| Violation {
        prop: "C17".into(),
        clause: "parser-instances-influence-each-other".into(),
        at,
        build: build.name().into(),
        detail: format!(
            "operation {} on parser {} answers {} while {} other parser(s) run on other threads (round {}) and {} when it runs alone",
            at,
            node,
            got.brief(),
            nodes - 1,
            round,
            want.brief()
        ),
        site: "concurrent-threads".into(),
    })
}

impl Prop for C17 {
    fn id(&self) -> &'static str {
        "C17"
    }

    fn generate(&self, seed: u64, run: u64) -> Scenario {
        // concurrent shape: decided by a hash of the seed that is independent of the run's own
        // PRNG stream, so that every other run is exactly what it was before this shape existed
        let forced = crate::props::forced_shape();
        let mut h = seed ^ 0x7c17_7c17_7c17_7c17;
        let pick = crate::rng::splitmix64(&mut h);
        if forced == Some("threads") || (forced.is_none() && pick % 64 == 0) {
            return generate_threads(seed, run);
        }
        let mut rng = Rng::new(seed);
        if rng.ratio(1, 5) {
            // independence shape: 2-3 parsers, each with its own stream, interleaved
            let (ops, nodes, desc) = chaos_ops(&mut rng, LinkProfile::Reassembly, true, 3, 50);
            let nodes = nodes.max(2);
            // spread the lines over the nodes by station (chaos_ops maps station -> node);
            // with a single station everything lands on node 0, so re-deal some runs by group
            let ops = if rng.ratio(1, 2) {
                ops.into_iter()
                    .map(|o| match o {
                        Op::Line(mut l) => {
                            l.node = match &l.sent {
                                Some(s) => (s.id.unwrap_or(0) as usize + s.n as usize) % nodes,
                                None => l.node % nodes,
                            };
                            Op::Line(l)
                        }
                        o => o,
                    })
                    .collect()
            } else {
                ops
            };
            return Scenario {
                prop: "C17".into(),
                seed,
                run,
                nodes,
                ops,
                stream: None,
                hidden_faults: take_hidden_faults(),
            config: format!("shape=independence {}", desc),
            };
        }
        let profile = if rng.ratio(1, 2) { LinkProfile::Reassembly } else { LinkProfile::Chaos };
        let reassembly = rng.ratio(3, 4);
        let (mut ops, nodes, desc) = chaos_ops(&mut rng, profile, reassembly, 1, 40);
        // position biased to fall inside an open group
        let inside: Vec<usize> = ops
            .iter()
            .enumerate()
            .filter_map(|(i, o)| match o {
                Op::Line(l) => match &l.sent {
                    Some(s) if s.k < s.n => Some(i + 1),
                    _ => None,
                },
                _ => None,
            })
            .collect();
        let p = if !inside.is_empty() && rng.ratio(3, 4) {
            *rng.pick(&inside)
        } else {
            rng.below(ops.len() + 1)
        };
        let (bytes, kind, faults) = extra_line(&mut rng, &ops, p);
        let mut x = LineOp::plain(0, bytes, rng.ratio(2, 3));
        x.role = Role::Extra;
        x.faults = faults;
        x.conv_result = rng.ratio(1, 2);
        ops.insert(p, Op::Line(x));
        Scenario {
            prop: "C17".into(),
            seed,
            run,
            nodes,
            ops,
            stream: None,
            hidden_faults: take_hidden_faults(),
            config: format!("shape=metamorphic extra={} at={} {}", kind, p, desc),
        }
    }

    fn droppable(&self, sc: &Scenario, i: usize) -> bool {
        !matches!(&sc.ops[i], Op::Line(l) if l.role == Role::Extra)
    }

    fn simplify(&self, sc: &Scenario, i: usize) -> Vec<Op> {
        match &sc.ops[i] {
            Op::Line(l) if l.role == Role::Extra => {
                let mut v = Vec::new();
                if l.decode {
                    let mut c = l.clone();
                    c.decode = false;
                    v.push(Op::Line(c));
                }
                v
            }
            _ => default_simplify(sc, i),
        }
    }

    fn judge(&self, sc: &Scenario, mut st: Option<&mut Stats>) -> Option<Violation> {
        // The class of the extra line is always decided by the std build. The no-alloc build is
        // judged too: a line std rejects for form, checksum or sequencing, or an unfragmented
        // sentence, must leave no trace there either (it rejects the same lines for the same
        // reasons, or - over-long payload - without touching its state).
        let v = judge_on(sc, Build::Std, &mut st);
        if v.is_some() {
            return v;
        }
        NOT_IN_CLASS_NONE.with(|c| c.set(0));
        let v = judge_on(sc, Build::None, &mut None);
        if let Some(st) = st.as_deref_mut() {
            // (counted, so that the evidence shows how often the no-alloc build was left out)
            st.probe_if(NOT_IN_CLASS_NONE.with(|c| c.get()) > 0, "no-alloc build not judged: it does not put the extra line in the class (it accepts it)");
        }
        if v.is_some() {
            return v;
        }
        if sc.config.starts_with("shape=threads") {
            for build in Build::ALL {
                let v = if build == Build::Std { judge_threads(sc, build, &mut st) } else { judge_threads(sc, build, &mut None) };
                if v.is_some() {
                    return v;
                }
            }
        }
        None
    }
}

fn judge_on(sc: &Scenario, build: Build, st: &mut Option<&mut Stats>) -> Option<Violation> {
    {
        let class_build = Build::Std;
        let extra_at = sc.ops.iter().position(|o| matches!(o, Op::Line(l) if l.role == Role::Extra));
        if let Some(p) = extra_at {
            let x = match &sc.ops[p] {
                Op::Line(l) => l.clone(),
                _ => unreachable!(),
            };
            // premise, decided by the real code: classify X with decoding off
            let mut kops: Vec<Op> = sc.ops[..p].to_vec();
            let mut kx = x.clone();
            kx.decode = false;
            kops.push(Op::Line(kx));
            let (kout, _) = exec(class_build, sc.nodes, &kops, |_, _| true);
            let k_outcome = kout.last().map(|(_, o)| o.clone());
            let class: &'static str = match &k_outcome {
                Some(Outcome::ErrNmea(_)) => "rejected(form-or-sequencing)",
                Some(Outcome::ErrChecksum { .. }) => "rejected(checksum)",
                // an unfragmented sentence is one that announces a single fragment, whatever the
                // parser makes of it
                Some(Outcome::Complete(s, _)) | Some(Outcome::Incomplete(s, _)) if s.n == 1 => "unfragmented",
                _ => {
                    if let Some(st) = st.as_deref_mut() {
                        st.premise_failed += 1;
                    }
                    return None;
                }
            };
            if build != class_build {
                // The line must be in the class for the build being judged as well: its parser
                // may be in another state (it abandons groups that exceed its capacity) and may
                // *accept* what std rejects there - e.g. the irregular "1 of 0" after an
                // abandoned group - which is then no rejected line at all (that divergence is
                // C18's business).
                let (kb, _) = exec(build, sc.nodes, &kops, |_, _| true);
                let in_class = match kb.last().map(|(_, o)| o) {
                    Some(Outcome::ErrNmea(_)) | Some(Outcome::ErrChecksum { .. }) => true,
                    Some(Outcome::Complete(s, _)) | Some(Outcome::Incomplete(s, _)) => s.n == 1,
                    _ => false,
                };
                if !in_class {
                    NOT_IN_CLASS_NONE.with(|c| c.set(c.get() + 1));
                    return None;
                }
            }
            let (a, a_states) = exec(build, sc.nodes, &sc.ops, |_, _| true);
            let (b, b_states) = exec(build, sc.nodes, &sc.ops, |i, _| i != p);
            if let Some(st) = st.as_deref_mut() {
                st.judged += 1;
                st.lines += (a.len() + b.len() + kout.len()) as u64;
                st.dyn_probe(format!("extra line class: {}", class));
                let x_in_a = a.iter().find(|(i, _)| *i == p).map(|(_, o)| o.clone());
                if let Some(o) = &x_in_a {
                    st.outcome(o);
                    st.probe_if(
                        matches!(o, Outcome::ErrNmea(_)) && matches!(k_outcome, Some(Outcome::Complete(..))),
                        "extra unfragmented line whose payload fails to decode",
                    );
                }
                // was a group open at p? (inferred from accepted results before p)
                let mut abs = AbsNode::default();
                let mut scratch = Stats::default();
                for (i, o) in &a {
                    if *i >= p {
                        break;
                    }
                    if let Op::Line(l) = &sc.ops[*i] {
                        abs.observe(&l.bytes, o, &mut scratch);
                    }
                }
                st.probe_if(abs.open, "extra line inserted while a group is open");
                if a_states != b_states {
                    st.probe("parser Debug state differs at end (hint only)");
                }
                let mut h = crate::rng::Fnv::default();
                for (i, o) in &a {
                    if let Op::Line(l) = &sc.ops[*i] {
                        abs.observe(&l.bytes, o, st);
                    }
                    h.write_str(o.kind());
                }
                h.write_str(class);
                st.histories.insert(h.0);
            }
            // every other line must get the same answer with and without X
            let a_rest: Vec<&(usize, Outcome)> = a.iter().filter(|(i, _)| *i != p).collect();
            for (ao, bo) in a_rest.iter().zip(b.iter()) {
                debug_assert_eq!(ao.0, bo.0);
                if ao.1 != bo.1 {
                    return Some(Violation {
                        prop: "C17".into(),
                        clause: "removing-the-line-changes-another-result".into(),
                        at: ao.0,
                        build: build.name().into(),
                        detail: format!(
                            "extra line {:?} (class {}) at position {}: operation {} answers {} with it and {} without it",
                            crate::json::show(&x.bytes),
                            class,
                            p,
                            ao.0,
                            ao.1.brief(),
                            bo.1.brief()
                        ),
                        site: class.into(),
                    });
                }
            }
            // probes: continue whatever group each side believes to be open, as a final
            // fragment, so that accumulated state becomes visible in a result
            let last_incomplete = |log: &[(usize, Outcome)]| -> Option<(u8, Option<u8>)> {
                let mut cur = None;
                for (_, o) in log {
                    match o {
                        Outcome::Incomplete(s, _) => cur = Some((s.k, s.id)),
                        Outcome::Complete(s, _) if s.n != 1 => cur = None,
                        _ => {}
                    }
                }
                cur
            };
            let mut probes: Vec<Vec<u8>> = Vec::new();
            for (k, id) in [last_incomplete(&a), last_incomplete(&b)].into_iter().flatten() {
                if k < 255 {
                    let l = make_line(ADDR, k + 1, k + 1, id, b"A", b"P", 0);
                    if !probes.contains(&l) {
                        probes.push(l);
                    }
                }
            }
            // and the irregular "1 of 0" sentence, which a parser with no open group answers with
            // whatever its buffer holds: it exposes payload left behind where none should be
            let mut ids_seen: Vec<Option<u8>> = vec![None];
            for (_, o) in a.iter().chain(b.iter()) {
                if let Some(sn) = o.accepted() {
                    if !ids_seen.contains(&sn.id) && ids_seen.len() < 3 {
                        ids_seen.push(sn.id);
                    }
                }
            }
            for id in ids_seen {
                probes.push(make_line(ADDR, 0, 1, id, b"A", b"Q", 0));
            }
            if !probes.is_empty() {
                let mut pa: Vec<Op> = sc.ops.clone();
                for pr in &probes {
                    pa.push(Op::Line(LineOp::plain(x.node, pr.clone(), false)));
                }
                let (a2, _) = exec(build, sc.nodes, &pa, |_, _| true);
                let (b2, _) = exec(build, sc.nodes, &pa, |i, _| i != p);
                let ta = &a2[a2.len() - probes.len()..];
                let tb = &b2[b2.len() - probes.len()..];
                for (j, (ao, bo)) in ta.iter().zip(tb.iter()).enumerate() {
                    if ao.1 != bo.1 {
                        return Some(Violation {
                            prop: "C17".into(),
                            clause: "removing-the-line-changes-another-result".into(),
                            at: sc.ops.len() - 1,
                            build: build.name().into(),
                            detail: format!(
                                "extra line {:?} (class {}) at position {}: the follow-up line {:?} answers {} with it and {} without it",
                                crate::json::show(&x.bytes),
                                class,
                                p,
                                crate::json::show(&probes[j]),
                                ao.1.brief(),
                                bo.1.brief()
                            ),
                            site: class.into(),
                        });
                    }
                }
            }
        }
        // independence: each node's log must equal the log of a solo run on its own stream
        if sc.nodes > 1 {
            let (all, _) = exec(build, sc.nodes, &sc.ops, |_, _| true);
            if let Some(st) = st.as_deref_mut() {
                st.judged += 1;
                st.lines += all.len() as u64;
                st.probe("independence scenario judged");
                let mut h = crate::rng::Fnv::default();
                for (i, o) in &all {
                    if let Op::Line(l) = &sc.ops[*i] {
                        h.write(&[l.node as u8]);
                    }
                    h.write_str(o.kind());
                }
                st.histories.insert(h.0);
            }
            for node in 0..sc.nodes {
                let mine = |_: usize, o: &Op| match o {
                    Op::Line(l) => l.node.min(sc.nodes - 1) == node,
                    Op::Restart { node: n } => (*n).min(sc.nodes - 1) == node,
                    _ => false,
                };
                // a solo run uses a single parser; remap by running with the same node count
                let (solo, _) = exec(build, sc.nodes, &sc.ops, mine);
                let inter: Vec<&(usize, Outcome)> = all
                    .iter()
                    .filter(|(i, _)| matches!(&sc.ops[*i], Op::Line(l) if l.node.min(sc.nodes - 1) == node))
                    .collect();
                for (s, t) in solo.iter().zip(inter.iter()) {
                    if s.1 != t.1 {
                        return Some(Violation {
                            prop: "C17".into(),
                            clause: "parser-instances-influence-each-other".into(),
                            at: s.0,
                            build: build.name().into(),
                            detail: format!(
                                "operation {} on node {} answers {} when the nodes' streams are interleaved and {} when the node runs alone",
                                s.0,
                                node,
                                t.1.brief(),
                                s.1.brief()
                            ),
                            site: "interleaving".into(),
                        });
                    }
                }
            }
        }
        None
    }
}

//! C06 — only a complete in-order group ever produces a multi-fragment message (safety of
//! reassembly under loss, duplication, reordering, interleaving, id reuse and restart).
//! The oracle reads nothing but the accepted results the real parser returns.

use super::*;

pub struct C06;

const ADDR: &[u8; 5] = b"AIVDM";

/// random walk over a small alphabet of validly numbered headers: dense coverage of the
/// reassembly state space (the link-based generator covers the realistic shapes)
fn walk_ops(rng: &mut Rng) -> (Vec<Op>, usize, String) {
    let ids: Vec<Option<u8>> = match rng.below(9) {
        0 => vec![None],
        1 => vec![Some(1)],
        2 => vec![None, Some(0)],
        3 => vec![None, Some(255)],
        4 => vec![Some(9), Some(10)],
        5 => vec![Some(25), Some(255), Some(5)],
        6 => vec![Some(1), Some(10), Some(100)],
        _ => vec![Some(0), Some(1), Some(7)],
    };
    let max_n = *rng.pick(&[2usize, 3, 3, 4, 5, 9, 12, 30]);
    let len = if max_n > 9 { rng.range(8, 40) } else { rng.range(2, 14) };
    let decode = DecodePolicy::swarm(rng);
    let restart_pm = *rng.pick(&[0u32, 0, 30, 100]);
    let seq_bias = if max_n > 9 { *rng.pick(&[900u32, 950, 980]) } else { *rng.pick(&[0u32, 400, 700, 900]) };
    let mut ops = Vec::new();
    let mut last: Option<(u8, u8, Option<u8>)> = None;
    for _ in 0..len {
        if rng.permille(restart_pm) {
            ops.push(Op::Restart { node: 0 });
        }
        // with probability seq_bias continue the previous header in order, else anything valid
        let (n, k, id) = match last {
            Some((n, k, id)) if k < n && rng.permille(seq_bias) => (n, k + 1, id),
            _ => {
                let n = rng.range(1, max_n) as u8;
                let k = rng.range(1, n as usize) as u8;
                (n, k, *rng.pick(&ids))
            }
        };
        last = Some((n, k, id));
        let plen = rng.range(1, 6);
        let payload: Vec<u8> = (0..plen).map(|_| armor_char(rng.below(64) as u8)).collect();
        let fill = if rng.ratio(1, 4) { rng.below(6) as u8 } else { 0 };
        let mut l = LineOp::plain(0, make_line(ADDR, n, k, id, b"A", &payload, fill), decode.draw(rng));
        l.conv_result = rng.ratio(1, 2);
        l.form_ok = true;
        ops.push(Op::Line(l));
    }
    (
        ops,
        1,
        format!(
            "shape=walk ids={:?} max_n={} len={} decode={:?} restart_pm={} seq_bias={}",
            ids, max_n, len, decode, restart_pm, seq_bias
        ),
    )
}

/// numbering at its upper edge: a group of 250-255 fragments delivered in order (sometimes
/// with a gap or a duplicate near the end), followed by fragments numbered around 255 and 1
fn long_group_ops(rng: &mut Rng) -> (Vec<Op>, usize, String) {
    let n = *rng.pick(&[255u8, 255, 254, 250]);
    let id = *rng.pick(&[None, Some(0u8), Some(9), Some(255)]);
    let stop = if rng.ratio(1, 2) { n } else { n - rng.range(1, 3) as u8 };
    let mut ops = Vec::new();
    let line = |k: u8, nn: u8, decode: bool| -> Op {
        let mut l = LineOp::plain(0, make_line(ADDR, nn, k, id, b"A", b"1", 0), decode);
        l.form_ok = true;
        Op::Line(l)
    };
    for k in 1..=stop {
        ops.push(line(k, n, false));
    }
    for _ in 0..rng.range(1, 5) {
        let k = *rng.pick(&[255u8, 255, 254, 253, 1, 2, stop, stop.wrapping_add(1)]);
        let nn = *rng.pick(&[255u8, 255, n, k.max(2)]);
        if k >= 1 && k <= nn {
            ops.push(line(k, nn, rng.ratio(1, 2)));
        }
    }
    (ops, 1, format!("shape=long-group n={} id={:?} delivered-up-to={}", n, id, stop))
}

impl Prop for C06 {
    fn id(&self) -> &'static str {
        "C06"
    }

    fn generate(&self, seed: u64, run: u64) -> Scenario {
        let mut rng = Rng::new(seed);
        let (ops, nodes, desc) = if rng.ratio(1, 300) {
            long_group_ops(&mut rng)
        } else if rng.ratio(1, 2) {
            walk_ops(&mut rng)
        } else {
            let r = chaos_ops(&mut rng, LinkProfile::Reassembly, true, 2, 40);
            (r.0, r.1, format!("shape=link {}", r.2))
        };
        Scenario {
            prop: "C06".into(),
            seed,
            run,
            nodes,
            ops,
            stream: None,
            config: desc,
            hidden_faults: take_hidden_faults(),
        }
    }

    fn judge(&self, sc: &Scenario, mut st: Option<&mut Stats>) -> Option<Violation> {
        // the oracle reads accepted results only (rejecting is always safe here), so the
        // no-alloc build's capacity rejections need no carve-out
        judge_build(sc, Build::Std, &mut st)
            .or_else(|| judge_build(sc, Build::Alloc, &mut None))
            .or_else(|| judge_build(sc, Build::None, &mut None))
    }
}

/// What the sentence *declares* on the wire: (fragment count, fragment number, sequence id), read
/// by the lexer that follows the property's words (comma-separated fields between the delimiter
/// and the first '*'). The numbers are compared by value ("03" is 3). `None` when the line is not
/// of that plain shape; the oracle then falls back to the header the parser reports.
fn wire_hdr(line: &[u8]) -> Option<(u8, u8, Option<u8>)> {
    let lx = lex(line)?;
    if lx.fields.len() != 7 {
        return None;
    }
    let num = |f: &[u8]| -> Option<u8> {
        if f.is_empty() || f.len() > 30 || !f.iter().all(|b| b.is_ascii_digit()) {
            return None;
        }
        let mut v: u32 = 0;
        for &b in f {
            v = v * 10 + (b - b'0') as u32;
            if v > 255 {
                return None;
            }
        }
        Some(v as u8)
    };
    let n = num(lx.field(line, 1)?)?;
    let k = num(lx.field(line, 2)?)?;
    let idf = lx.field(line, 3)?;
    let id = if idf.is_empty() { None } else { Some(num(idf)?) };
    Some((n, k, id))
}

struct Chain {
    /// (k, id, own payload) of the accepted fragments since the opener
    items: Vec<(u8, Option<u8>, Vec<u8>)>,
}

fn judge_build(sc: &Scenario, build: Build, st: &mut Option<&mut Stats>) -> Option<Violation> {
    let nn = sc.nodes.max(1);
    let mut chains: Vec<Option<Chain>> = (0..nn).map(|_| None).collect();
    // after a panic the observer no longer knows the node's state: judge nothing on that
    // node until it accepts the next opener (narrow, counted)
    let mut blind: Vec<bool> = vec![false; nn];
    let delivered_since_open = std::cell::RefCell::new(vec![false; nn]);
    let mut abs: Vec<AbsNode> = vec![AbsNode::default(); nn];
    let mut result: Option<Violation> = None;
    let chains_ref = std::cell::RefCell::new(&mut chains);
    let blind_ref = std::cell::RefCell::new(&mut blind);
    let abs_ref = std::cell::RefCell::new(&mut abs);
    let st_ref = std::cell::RefCell::new(st);
    run_lines(
        build,
        sc,
        |i, l, out, _node| {
            let node = l.node.min(nn - 1);
            let mut chains = chains_ref.borrow_mut();
            let mut blind = blind_ref.borrow_mut();
            let mut stg = st_ref.borrow_mut();
            if let Some(st) = stg.as_deref_mut() {
                st.lines += 1;
                st.outcome(out);
                let before_open = abs_ref.borrow()[node].open;
                abs_ref.borrow_mut()[node].observe(&l.bytes, out, st);
                let _ = before_open;
            }
            let s = match out {
                Outcome::Panic(_) => {
                    blind[node] = true;
                    chains[node] = None;
                    if let Some(st) = stg.as_deref_mut() {
                        st.premise_failed += 1;
                    }
                    return true;
                }
                Outcome::ErrNmea(_) | Outcome::ErrChecksum { .. } => return true,
                Outcome::Complete(s, _) | Outcome::Incomplete(s, _) => s,
            };
            let complete = matches!(out, Outcome::Complete(..));
            // The statement speaks of what a sentence *declares*: count, number and sequence id
            // are taken from the line itself wherever its shape is plain, not from the header
            // the parser reports back (a parser that folds or rewrites an id on the way in would
            // otherwise vouch for itself). Payloads and acceptance still come from the results.
            let reported = (s.n, s.k, s.id);
            let declared = wire_hdr(&l.bytes);
            if let Some(st) = stg.as_deref_mut() {
                match declared {
                    Some(d) if d != reported => st.probe("accepted line: reported header differs from the declared one (declared one is used)"),
                    Some(_) => st.probe("accepted line: header taken from the wire"),
                    None => st.probe("accepted line: shape not plain, reported header used"),
                }
            }
            let (dn, dk, did) = declared.unwrap_or(reported);
            struct Hd {
                n: u8,
                k: u8,
                id: Option<u8>,
                data: Vec<u8>,
            }
            // likewise the fragment's own payload: field 5 of the line where the shape is plain
            // (the Complete of a group reports the concatenation; its own part is read below)
            let own_payload: Option<Vec<u8>> = lex(&l.bytes)
                .filter(|lx| lx.fields.len() == 7)
                .and_then(|lx| lx.field(&l.bytes, 5).map(|f| f.to_vec()));
            let data = if complete { s.data.clone() } else { own_payload.unwrap_or_else(|| s.data.clone()) };
            let s = Hd { n: dn, k: dk, id: did, data };
            if s.n == 1 {
                // unfragmented: not a member of any group
                return true;
            }
            if s.k == 0 {
                // outside the premise (validly numbered sentences): ignored
                if let Some(st) = stg.as_deref_mut() {
                    st.unscoped += 1;
                }
                return true;
            }
            if s.k == 1 {
                if !complete {
                    chains[node] = Some(Chain {
                        items: vec![(1, s.id, s.data.clone())],
                    });
                    blind[node] = false;
                    delivered_since_open.borrow_mut()[node] = false;
                } else {
                    // k = 1 reported Complete with n != 1 means n = 0: outside the premise;
                    // whatever group was open may have been consumed
                    chains[node] = None;
                    blind[node] = true;
                    if let Some(st) = stg.as_deref_mut() {
                        st.unscoped += 1;
                    }
                }
                return true;
            }
            // k >= 2 of a multi-fragment message was accepted
            if blind[node] {
                if let Some(st) = stg.as_deref_mut() {
                    st.premise_failed += 1;
                }
                return true;
            }
            if let Some(st) = stg.as_deref_mut() {
                st.judged += 1;
            }
            let fail = |clause: &str, site: &str, detail: String| Violation {
                prop: "C06".into(),
                clause: clause.into(),
                at: i,
                build: build.name().into(),
                detail,
                site: site.into(),
            };
            let chain = match chains[node].as_mut() {
                None => {
                    let why = if delivered_since_open.borrow()[node] {
                        ("continues-a-delivered-group", "the group it would continue was already delivered")
                    } else {
                        ("no-open-group", "no group is open (none was opened by a fragment 1, or the node restarted)")
                    };
                    result = Some(fail(
                        "orphan-fragment-accepted",
                        why.0,
                        format!(
                            "fragment {} of {} (id {:?}) was accepted as {} although {}: line {:?}",
                            s.k,
                            s.n,
                            s.id,
                            out.kind(),
                            why.1,
                            crate::json::show(&l.bytes)
                        ),
                    ));
                    return false;
                }
                Some(c) => c,
            };
            let (lk, lid, _) = chain.items.last().unwrap().clone();
            if lid != s.id {
                result = Some(fail(
                    "orphan-fragment-accepted",
                    "id-mismatch",
                    format!(
                        "fragment {} of {} with id {:?} was accepted into the open group with id {:?}",
                        s.k, s.n, s.id, lid
                    ),
                ));
                return false;
            }
            if lk.checked_add(1) != Some(s.k) {
                let site = if s.k == lk {
                    "duplicate"
                } else if s.k < lk {
                    "earlier"
                } else {
                    "skip"
                };
                result = Some(fail(
                    "orphan-fragment-accepted",
                    site,
                    format!(
                        "fragment {} of {} (id {:?}) was accepted although the previously accepted fragment of the open group was {}",
                        s.k, s.n, s.id, lk
                    ),
                ));
                return false;
            }
            if complete {
                let own: Option<Vec<u8>> = lex(&l.bytes)
                    .filter(|lx| lx.fields.len() == 7)
                    .and_then(|lx| lx.field(&l.bytes, 5).map(|f| f.to_vec()));
                match own {
                    None => {
                        if let Some(st) = stg.as_deref_mut() {
                            st.unscoped += 1;
                        }
                    }
                    Some(own) => {
                        let mut want: Vec<u8> = Vec::new();
                        for (_, _, d) in &chain.items {
                            want.extend_from_slice(d);
                        }
                        want.extend_from_slice(&own);
                        if want != s.data {
                            result = Some(fail(
                                "delivered-payload-not-the-in-order-concatenation",
                                "complete-data",
                                format!(
                                    "Complete for group (n={}, id {:?}) carries {:?}; the accepted fragments 1..{} concatenate to {:?}",
                                    s.n,
                                    s.id,
                                    crate::json::show(&s.data),
                                    s.k,
                                    crate::json::show(&want)
                                ),
                            ));
                            return false;
                        }
                    }
                }
                if let Some(st) = stg.as_deref_mut() {
                    st.probe("multi-fragment Complete verified");
                    st.probe_if(chain.items.len() >= 2, "multi-fragment Complete verified, n>=3");
                }
                chains[node] = None;
                delivered_since_open.borrow_mut()[node] = true;
            } else {
                chain.items.push((s.k, s.id, s.data.clone()));
            }
            true
        },
        |_i, node| {
            chains_ref.borrow_mut()[node.min(nn - 1)] = None;
            blind_ref.borrow_mut()[node.min(nn - 1)] = false;
            delivered_since_open.borrow_mut()[node.min(nn - 1)] = false;
            if let Some(st) = st_ref.borrow_mut().as_deref_mut() {
                st.restarts += 1;
                abs_ref.borrow_mut()[node.min(nn - 1)].restart(st);
            }
        },
    );
    if let Some(st) = st_ref.borrow_mut().as_deref_mut() {
        st.histories.insert(combined_history(&abs_ref.borrow()));
    }
    result
}

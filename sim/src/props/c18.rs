//! C18 — the std, alloc and no-allocator builds are observationally equivalent; the only
//! permitted difference is that the no-allocator build *rejects with an error* inputs
//! exceeding its fixed capacities (384 payload bytes per reassembled sentence, 119 bytes of
//! binary data, 20 characters of text). One delivered schedule, three real builds in
//! lock-step, compared after every operation.

use super::*;

pub struct C18;

pub const CAP_PAYLOAD: usize = 384;
pub const CAP_BINARY: usize = 119;
pub const CAP_TEXT: usize = 20;

/// Does the variable-length text that ends a type 12 / 14 message exceed the 20 characters the
/// no-alloc build can hold? The decoder sees whole bytes, so the characters it reads are
/// `(8 * len - header) / 6`: after a text of the full 20 characters the bits that pad the payload
/// to whole bytes amount to one more, padding, character. The capacity is exceeded when more
/// than 21 characters are there, or when the text - leading spaces, then trailing '@', then
/// trailing spaces removed (C13) - is longer than 20.
fn text_capacity_exceeded(raw: &[u8], header_bits: usize) -> bool {
    let bits = (raw.len() * 8).saturating_sub(header_bits);
    let n = bits / 6;
    if n > CAP_TEXT + 1 {
        return true;
    }
    let mut chars: Vec<u8> = Vec::with_capacity(n);
    for i in 0..n {
        let mut v = 0u8;
        for b in 0..6 {
            let pos = header_bits + i * 6 + b;
            let bit = (raw[pos / 8] >> (7 - pos % 8)) & 1;
            v = (v << 1) | bit;
        }
        chars.push(if v < 32 { v + 64 } else { v });
    }
    let start = chars.iter().position(|&c| c != b' ').unwrap_or(chars.len());
    let mut end = chars.len();
    while end > start && chars[end - 1] == b'@' {
        end -= 1;
    }
    while end > start && chars[end - 1] == b' ' {
        end -= 1;
    }
    end - start > CAP_TEXT
}

/// does decoding this (complete) payload exceed a fixed capacity of the no-alloc build?
/// Returns the name of the capacity.
pub fn decode_capacity_exceeded(payload: &[u8], fill: u8) -> Option<&'static str> {
    let ty = unarmor_char(*payload.first()?)?;
    // Binary data: the bits that were *transmitted* after the header (6 per payload character,
    // less the fill bits), not the bytes the decoder is handed - `unarmor` pads the payload to
    // whole bytes, and where the header does not end on a byte boundary of the 6-bit characters
    // (types 6 and 17) 119 bytes of data are followed by a byte of nothing but padding (D11).
    let data_bits = |header_bits: usize| (payload.len() * 6).saturating_sub(fill.min(5) as usize).saturating_sub(header_bits);
    match ty {
        6 if data_bits(88) > CAP_BINARY * 8 => Some("binary data of type 6 > 119 bytes"),
        8 if data_bits(56) > CAP_BINARY * 8 => Some("binary data of type 8 > 119 bytes"),
        17 if data_bits(120) > CAP_BINARY * 8 => Some("correction data of type 17 > 119 bytes"),
        12 | 14 => {
            // (the real unarmor of the std build: what the decoder is given)
            let raw = api_unarmor_raw(Build::Std, payload, fill as usize)?;
            let (hdr, what) = if ty == 12 { (72, "text of type 12 > 20 characters") } else { (40, "text of type 14 > 20 characters") };
            if text_capacity_exceeded(&raw, hdr) {
                Some(what)
            } else {
                None
            }
        }
        _ => None,
    }
}

/// the same for an unarmoured buffer handed to `messages::parse` directly
pub fn raw_decode_capacity_exceeded(raw: &[u8]) -> bool {
    let ty = match raw.first() {
        Some(b) => b >> 2,
        None => return false,
    };
    let bytes = raw.len();
    match ty {
        6 => bytes > 11 + CAP_BINARY,
        8 => bytes > 7 + CAP_BINARY,
        17 => bytes > 15 + CAP_BINARY,
        12 => text_capacity_exceeded(raw, 72),
        14 => text_capacity_exceeded(raw, 40),
        _ => false,
    }
}

/// alloc must answer like std; the no-alloc build too, except that it may answer with an error
/// where a fixed capacity is exceeded (`capacity`)
fn api_compare(
    at: usize,
    what: &str,
    std_o: &ApiOutcome,
    alloc_o: &ApiOutcome,
    none_o: &ApiOutcome,
    capacity: bool,
    input: &[u8],
) -> Option<Violation> {
    let fail = |clause: &str, site: String, build: &str, detail: String| Violation {
        prop: "C18".into(),
        clause: clause.into(),
        at,
        build: build.into(),
        detail: format!(
            "{} — {} on {} byte(s) (hex {}…): std {:?} | alloc {:?} | none {:?}",
            detail,
            what,
            input.len(),
            crate::json::hex(&input[..input.len().min(24)]),
            short(std_o),
            short(alloc_o),
            short(none_o)
        ),
        site,
    };
    for (b, o) in [("std", std_o), ("alloc", alloc_o), ("none", none_o)] {
        if let ApiOutcome::Panic(p) = o {
            return Some(fail(
                "build-panics",
                format!("{}:{}", b, super::c01::panic_site(p)),
                b,
                format!("the {} build panicked: {}", b, p),
            ));
        }
    }
    let same = |x: &ApiOutcome, y: &ApiOutcome| match (x, y) {
        (ApiOutcome::Ok(a), ApiOutcome::Ok(b)) => a == b,
        (ApiOutcome::Err(_), ApiOutcome::Err(_)) => true,
        _ => false,
    };
    if !same(std_o, alloc_o) {
        return Some(fail("alloc-differs-from-std", format!("api:{}", what), "alloc", "the alloc build answers differently from the std build".into()));
    }
    if !same(std_o, none_o) {
        match (std_o, none_o) {
            (ApiOutcome::Ok(_), ApiOutcome::Err(_)) if capacity => {}
            (ApiOutcome::Ok(_), ApiOutcome::Err(_)) => {
                return Some(fail("none-rejects-within-capacity", format!("api:{}", what), "none", "the no-alloc build rejects what the std build accepts although no fixed capacity is exceeded".into()))
            }
            (ApiOutcome::Err(_), ApiOutcome::Ok(_)) => {
                return Some(fail("none-accepts-what-std-rejects", format!("api:{}", what), "none", "the no-alloc build accepts what the std build rejects".into()))
            }
            _ => {
                return Some(fail("none-accepts-with-different-content", format!("api:{}", what), "none", "both builds accept but the results differ".into()))
            }
        }
    }
    None
}

fn short(o: &ApiOutcome) -> String {
    let s = format!("{:?}", o);
    s.chars().take(160).collect()
}

/// is the sentence "fragment 1 of 0" without a sequence id - the one sentence of the recorded
/// finding D9? (Any other "k of 0", or one with an id, keeps its own site and is reported.)
fn irregular_count_zero(line: &[u8]) -> bool {
    match lex(line) {
        Some(lx) if lx.fields.len() == 7 => {
            let num = |i: usize| -> Option<u32> { std::str::from_utf8(lx.field(line, i)?).ok()?.parse::<u32>().ok() };
            num(1) == Some(0) && num(2) == Some(1) && lx.field(line, 3).map_or(false, |f| f.is_empty())
        }
        _ => false,
    }
}

fn own_payload_len(line: &[u8]) -> Option<usize> {
    let lx = lex(line)?;
    if lx.fields.len() < 6 {
        return None;
    }
    lx.field(line, 5).map(|f| f.len())
}

fn big_group(rng: &mut Rng, ops: &mut Vec<Op>) {
    // a group whose accumulated payload straddles the 384-byte reassembly buffer
    let total = *rng.pick(&[380usize, 383, 384, 385, 386, 390, 420, 500, 700, 800]);
    let ty = *rng.pick(&[8u8, 6, 17, 12, 14, 5, 1, 26]);
    let mut chars: Vec<u8> = (0..total).map(|_| armor_char(rng.below(64) as u8)).collect();
    chars[0] = armor_char(ty);
    let n = rng.range(2, 5);
    let id = if rng.ratio(1, 3) { None } else { Some(rng.below(10) as u8) };
    let pieces = split_payload(rng, &chars, n);
    let at = rng.below(ops.len() + 1);
    let decode = rng.ratio(3, 4);
    let mut lines: Vec<Op> = Vec::new();
    for (i, p) in pieces.iter().enumerate() {
        let mut l = LineOp::plain(0, make_line(b"AIVDM", n as u8, (i + 1) as u8, id, b"A", p, 0), decode);
        l.form_ok = true;
        l.conv_result = rng.ratio(1, 2);
        lines.push(Op::Line(l));
        // sometimes a fragment is repeated or a small stranger with the same id interleaves
        if rng.ratio(1, 8) {
            lines.push(lines.last().unwrap().clone());
        }
        if rng.ratio(1, 8) {
            let k = rng.range(1, n) as u8;
            lines.push(Op::Line(LineOp::plain(0, make_line(b"AIVDM", n as u8, k, id, b"B", b"0", 0), decode)));
        }
    }
    // and sometimes an older, small group is left open before it
    if rng.ratio(1, 4) {
        let oid = if rng.ratio(1, 2) { id } else { Some(rng.below(10) as u8) };
        lines.insert(0, Op::Line(LineOp::plain(0, make_line(b"AIVDM", 3, 1, oid, b"A", b"1234", 0), false)));
        if rng.ratio(1, 2) {
            lines.push(Op::Line(LineOp::plain(0, make_line(b"AIVDM", 3, 2, oid, b"A", b"5678", 0), false)));
            lines.push(Op::Line(LineOp::plain(0, make_line(b"AIVDM", 3, 3, oid, b"A", b"9", 0), decode)));
        }
    }
    for (j, l) in lines.into_iter().enumerate() {
        ops.insert((at + j).min(ops.len()), l);
    }
}

impl Prop for C18 {
    fn id(&self) -> &'static str {
        "C18"
    }

    fn generate(&self, seed: u64, run: u64) -> Scenario {
        let mut rng = Rng::new(seed);
        let profile = *rng.pick(&[LinkProfile::Chaos, LinkProfile::Reassembly, LinkProfile::Clean]);
        let reassembly = rng.ratio(1, 2);
        let (mut ops, nodes, mut desc) = chaos_ops(&mut rng, profile, reassembly, 2, 50);
        // irregular numbering with a valid checksum ("1 of 0", "0 of n", k > n), placed anywhere
        let irregular = *rng.pick(&[0usize, 0, 0, 1, 2, 4]);
        for _ in 0..irregular {
            let (n, k) = *rng.pick(&[(0u8, 1u8), (0, 1), (0, 2), (0, 0), (2, 0), (1, 0), (1, 2), (2, 3), (3, 255), (255, 0)]);
            let id = *rng.pick(&[None, None, Some(0u8), Some(1), Some(5)]);
            let at = rng.below(ops.len() + 1);
            let node = rng.below(nodes);
            let mut l = LineOp::plain(node, make_line(b"AIVDM", n, k, id, b"A", b"15M", 0), rng.ratio(1, 2));
            l.faults.push(Fault::RewriteHeader);
            ops.insert(at, Op::Line(l));
        }
        let bigs = *rng.pick(&[0usize, 0, 1, 1, 2]);
        for _ in 0..bigs {
            big_group(&mut rng, &mut ops);
        }
        desc.push_str(&format!(" big_groups={}", bigs));
        // the payload-level client: the two public payload functions on what is in flight,
        // and on raw buffers of every type around the no-alloc capacities
        let api_pm = *rng.pick(&[0u32, 0, 100, 300]);
        let mut with_api: Vec<Op> = Vec::with_capacity(ops.len() + 8);
        for op in ops {
            let bytes = match &op {
                Op::Line(l) => Some(l.bytes.clone()),
                _ => None,
            };
            with_api.push(op);
            if let Some(b) = bytes {
                if rng.permille(api_pm) {
                    let payload = match lex(&b) {
                        Some(lx) if lx.fields.len() >= 6 => lx.field(&b, 5).unwrap().to_vec(),
                        _ => b.clone(),
                    };
                    with_api.push(Op::Unarmor { bytes: payload, fill: rng.below(6) as u8 });
                }
                if rng.permille(api_pm / 2) {
                    let ty = *rng.pick(SUPPORTED_TYPES);
                    let n = match rng.below(4) {
                        0 => *rng.pick(&[5usize, 6, 9, 11, 12, 15, 16, 21, 22, 23, 24, 25]),
                        1 => *rng.pick(&[125usize, 126, 127, 129, 130, 131, 133, 134, 135, 136]),
                        2 => rng.range(0, 60),
                        _ => rng.range(60, 400),
                    };
                    let mut v = rng.bytes(n);
                    if !v.is_empty() {
                        v[0] = (ty << 2) | (v[0] & 3);
                    }
                    with_api.push(Op::Decode { bytes: v });
                }
            }
        }
        let ops = with_api;
        desc.push_str(&format!(" api_pm={}", api_pm));
        Scenario {
            prop: "C18".into(),
            seed,
            run,
            nodes,
            ops,
            stream: None,
            config: desc,
            hidden_faults: take_hidden_faults(),
        }
    }

    fn judge(&self, sc: &Scenario, mut st: Option<&mut Stats>) -> Option<Violation> {
        let nn = sc.nodes.max(1);
        let mut std_nodes: Vec<Box<dyn Node>> = (0..nn).map(|_| new_node(Build::Std)).collect();
        let mut alloc_nodes: Vec<Box<dyn Node>> = (0..nn).map(|_| new_node(Build::Alloc)).collect();
        let mut none_nodes: Vec<Box<dyn Node>> = (0..nn).map(|_| new_node(Build::None)).collect();
        // observer state per node, inferred from the std build's accepted results
        let mut acc: Vec<usize> = vec![0; nn];
        let mut dead: Vec<bool> = vec![false; nn];
        // the std build changed its reassembly state on a line whose own payload exceeds 384
        // bytes, which the no-alloc build rejected while still parsing the sentence (its state
        // is untouched): until both accept the same opener the two state machines are out of
        // step. Violations inside that window carry their own site (see known_findings.json).
        let mut desync: Vec<bool> = vec![false; nn];
        let mut abs: Vec<AbsNode> = vec![AbsNode::default(); nn];
        for (i, op) in sc.ops.iter().enumerate() {
            let l = match op {
                Op::Line(l) => l,
                Op::Restart { node } => {
                    let n = (*node).min(nn - 1);
                    std_nodes[n].restart();
                    alloc_nodes[n].restart();
                    none_nodes[n].restart();
                    acc[n] = 0;
                    dead[n] = false;
                    desync[n] = false;
                    if let Some(st) = st.as_deref_mut() {
                        st.restarts += 1;
                        abs[n].restart(st);
                    }
                    continue;
                }
                Op::Unarmor { bytes, fill } => {
                    // the public payload functions, the same call in the three builds
                    let a = api_unarmor(Build::Std, bytes, *fill as usize);
                    let b = api_unarmor(Build::Alloc, bytes, *fill as usize);
                    let c = api_unarmor(Build::None, bytes, *fill as usize);
                    if let Some(st) = st.as_deref_mut() {
                        st.direct_api_calls += 3;
                    }
                    // "384 payload bytes": the payload handed to unarmor, counted in its own bytes
                    // (not in the bytes it unarmors to, which is how the code under test counts)
                    let too_large = bytes.len() > CAP_PAYLOAD;
                    if let Some(v) = api_compare(i, "unarmor", &a, &b, &c, too_large, bytes) {
                        return Some(v);
                    }
                    if let Some(raw) = api_unarmor_raw(Build::Std, bytes, *fill as usize) {
                        let a = api_decode(Build::Std, &raw);
                        let b = api_decode(Build::Alloc, &raw);
                        let c = api_decode(Build::None, &raw);
                        if let Some(st) = st.as_deref_mut() {
                            st.direct_api_calls += 3;
                        }
                        // (payload and fill count are known here: the rule in the property's terms)
                        let cap = too_large || decode_capacity_exceeded(bytes, *fill).is_some();
                        if let Some(v) = api_compare(i, "messages::parse(unarmor(..))", &a, &b, &c, cap, bytes) {
                            return Some(v);
                        }
                    }
                    continue;
                }
                Op::Decode { bytes } => {
                    let a = api_decode(Build::Std, bytes);
                    let b = api_decode(Build::Alloc, bytes);
                    let c = api_decode(Build::None, bytes);
                    if let Some(st) = st.as_deref_mut() {
                        st.direct_api_calls += 3;
                    }
                    let cap = raw_decode_capacity_exceeded(bytes);
                    if let Some(v) = api_compare(i, "messages::parse", &a, &b, &c, cap, bytes) {
                        return Some(v);
                    }
                    continue;
                }
            };
            let n = l.node.min(nn - 1);
            let own = own_payload_len(&l.bytes);
            let own_too_large = matches!(own, Some(len) if len > CAP_PAYLOAD);
            let std_state_before = if own_too_large { Some(std_nodes[n].state()) } else { None };
            let o_std = std_nodes[n].parse(&l.bytes, l.decode, l.conv_result);
            let o_alloc = alloc_nodes[n].parse(&l.bytes, l.decode, l.conv_result);
            let o_none = none_nodes[n].parse(&l.bytes, l.decode, l.conv_result);
            if let Some(st) = st.as_deref_mut() {
                st.lines += 3;
                st.judged += 1;
                st.outcome(&o_std);
                abs[n].observe(&l.bytes, &o_std, st);
            }
            let fail = |clause: &str, site: String, build: &str, detail: String| Violation {
                prop: "C18".into(),
                clause: clause.into(),
                at: i,
                build: build.into(),
                detail: format!(
                    "{} — line {:?} (decode={}): std {} | alloc {} | none {}",
                    detail,
                    {
                        let mut t = crate::json::show(&l.bytes);
                        if t.len() > 120 {
                            t.truncate(120);
                            t.push('…');
                        }
                        t
                    },
                    l.decode,
                    o_std.brief(),
                    o_alloc.brief(),
                    o_none.brief()
                ),
                site,
            };
            for (b, o) in [("std", &o_std), ("alloc", &o_alloc), ("none", &o_none)] {
                if let Outcome::Panic(p) = o {
                    return Some(fail(
                        "build-panics",
                        format!("{}:{}", b, super::c01::panic_site(p)),
                        b,
                        format!("the {} build panicked: {}", b, p),
                    ));
                }
            }
            // alloc vs std: same acceptance, same category (checksum values included), same
            // sentence and message; the wording of an Nmea error is not part of the property
            let alloc_same = match (&o_std, &o_alloc) {
                (Outcome::ErrNmea(_), Outcome::ErrNmea(_)) => true,
                (a, b) => a == b,
            };
            if !alloc_same {
                return Some(fail(
                    "alloc-differs-from-std",
                    format!("{}/{}", o_std.kind(), o_alloc.kind()),
                    "alloc",
                    "the alloc build answers differently from the std build".into(),
                ));
            }
            match (&o_std, &o_none) {
                (Outcome::Complete(a, ca), Outcome::Complete(b, cb))
                | (Outcome::Incomplete(a, ca), Outcome::Incomplete(b, cb)) => {
                    if a != b || ca != cb {
                        let what = if a.data != b.data {
                            "payload"
                        } else if a.message != b.message {
                            "decoded message"
                        } else {
                            "sentence fields"
                        };
                        return Some(fail(
                            "none-accepts-with-different-content",
                            if desync[n] { "desync-after-oversize-line".into() } else { what.to_string() },
                            "none",
                            format!(
                                "both builds accept but the {} differs (payload length std {} vs none {}; message std {:?} vs none {:?})",
                                what,
                                a.data.len(),
                                b.data.len(),
                                a.message.as_ref().map(|m| m.chars().take(120).collect::<String>()),
                                b.message.as_ref().map(|m| m.chars().take(120).collect::<String>())
                            ),
                        ));
                    }
                }
                (Outcome::Complete(..), Outcome::Incomplete(..)) | (Outcome::Incomplete(..), Outcome::Complete(..)) => {
                    return Some(fail(
                        "none-accepts-with-different-content",
                        "kind".into(),
                        "none",
                        "one build reports Complete, the other Incomplete".into(),
                    ));
                }
                (Outcome::ErrChecksum { expected: e1, found: f1 }, Outcome::ErrChecksum { expected: e2, found: f2 }) => {
                    if e1 != e2 || f1 != f2 {
                        return Some(fail(
                            "error-category-differs",
                            "checksum-values".into(),
                            "none",
                            "both builds report a checksum error but with different values".into(),
                        ));
                    }
                }
                (Outcome::ErrNmea(_), Outcome::ErrNmea(_)) => {}
                (Outcome::ErrChecksum { .. }, Outcome::ErrNmea(_)) => {
                    // the no-alloc build copies the payload into its fixed buffer while still
                    // parsing the sentence, i.e. before the checksum is compared
                    if !own_too_large {
                        return Some(fail(
                            "error-category-differs",
                            "std=Checksum,none=Nmea".into(),
                            "none",
                            "std reports a checksum error, none a parse error, and the line's payload does not exceed 384 bytes".into(),
                        ));
                    }
                    if let Some(st) = st.as_deref_mut() {
                        st.probe("capacity: over-long payload pre-empts the checksum error in none");
                    }
                }
                (Outcome::ErrNmea(_), Outcome::ErrChecksum { .. }) => {
                    return Some(fail(
                        "error-category-differs",
                        "std=Nmea,none=Checksum".into(),
                        "none",
                        "std reports a parse error, none a checksum error".into(),
                    ));
                }
                (Outcome::ErrNmea(_) | Outcome::ErrChecksum { .. }, Outcome::Complete(..) | Outcome::Incomplete(..)) => {
                    return Some(fail(
                        "none-accepts-what-std-rejects",
                        if (dead[n] || desync[n]) && irregular_count_zero(&l.bytes) {
                            // "k of 0": a sentence only a parser with no open group accepts
                            // (known finding D9)
                            "fragment-of-0-after-capacity-rejection".to_string()
                        } else if desync[n] {
                            "desync-after-oversize-line".to_string()
                        } else {
                            format!(
                                "{}{}",
                                o_std.kind(),
                                if dead[n] { ",after-capacity-rejection" } else { "" }
                            )
                        },
                        "none",
                        format!(
                            "the no-alloc build accepts a line the std build rejects{}",
                            if dead[n] {
                                " (the no-alloc build had earlier rejected a fragment of the std build's open group for capacity)"
                            } else {
                                ""
                            }
                        ),
                    ));
                }
                (Outcome::Complete(s, _) | Outcome::Incomplete(s, _), Outcome::ErrNmea(_) | Outcome::ErrChecksum { .. }) => {
                    // permitted only for inputs exceeding a fixed capacity
                    let complete = matches!(o_std, Outcome::Complete(..));
                    let fragment = s.n != 1;
                    let own_len = if fragment && complete {
                        own.unwrap_or(0)
                    } else {
                        s.data.len()
                    };
                    let reason: Option<&'static str> = if matches!(o_none, Outcome::ErrChecksum { .. }) {
                        None
                    } else if own_len > CAP_PAYLOAD || own_too_large {
                        Some("payload of the line > 384 bytes")
                    } else if fragment && s.k != 1 && dead[n] {
                        Some("continues a group the no-alloc build already rejected for capacity")
                    } else if fragment && s.k != 1 && acc[n] + own_len > CAP_PAYLOAD {
                        Some("accumulated payload of the group > 384 bytes")
                    } else if complete && l.decode {
                        decode_capacity_exceeded(&s.data, s.fill)
                    } else {
                        None
                    };
                    match reason {
                        None => {
                            return Some(fail(
                                "none-rejects-within-capacity",
                                if desync[n] { "desync-after-oversize-line".to_string() } else { o_std.kind().to_string() },
                                "none",
                                "the no-alloc build rejects a line the std build accepts although no fixed capacity is exceeded".into(),
                            ));
                        }
                        Some(r) => {
                            if let Some(st) = st.as_deref_mut() {
                                st.dyn_probe(format!("capacity rejection in none: {}", r));
                            }
                        }
                    }
                }
                (Outcome::Panic(_), _) | (_, Outcome::Panic(_)) => unreachable!(),
            }
            if let Some(st) = st.as_deref_mut() {
                // both sides of each limit
                if let Outcome::Complete(s, _) = &o_std {
                    if l.decode && s.message.is_some() {
                        if let Some(ty) = s.data.first().and_then(|&c| unarmor_char(c)) {
                            // in the property's terms: the bits that were transmitted after the
                            // header (6 per payload character, less the fill count)
                            let tx_bits = (s.data.len() * 6).saturating_sub(s.fill.min(5) as usize);
                            let both = matches!(o_none, Outcome::Complete(..));
                            match ty {
                                6 | 8 | 17 => {
                                    let hdr = match ty {
                                        6 => 88,
                                        8 => 56,
                                        _ => 120,
                                    };
                                    let data_bits = tx_bits.saturating_sub(hdr);
                                    st.probe_if(both && data_bits == CAP_BINARY * 8, "binary data of exactly 119 bytes transmitted, accepted by all builds");
                                    st.probe_if(both && ty != 8 && data_bits == CAP_BINARY * 8, "the same in a type 6 / 17 message (padding byte after the data: D11)");
                                    st.probe_if(data_bits > CAP_BINARY * 8 && data_bits <= (CAP_BINARY + 1) * 8, "binary data of up to one byte more than 119 transmitted");
                                }
                                12 | 14 => {
                                    let hdr = if ty == 12 { 72 } else { 40 };
                                    let chars = tx_bits.saturating_sub(hdr) / 6;
                                    st.probe_if(both && chars == CAP_TEXT, "text of exactly 20 characters transmitted, accepted by all builds");
                                    st.probe_if(both && ty == 14 && chars == CAP_TEXT, "the same in a type 14 message (padding character after the text: D10)");
                                    st.probe_if(chars == CAP_TEXT + 1, "text of 21 characters transmitted");
                                }
                                7 | 13 | 20 => {
                                    st.probe("list message (many_m_n) decoded in all builds");
                                }
                                15 => st.probe("interrogation decoded in all builds"),
                                _ => {}
                            }
                        }
                    }
                    st.probe_if(s.n != 1 && s.data.len() == CAP_PAYLOAD, "reassembled payload exactly 384 bytes");
                    st.probe_if(s.n != 1 && s.data.len() > CAP_PAYLOAD, "reassembled payload > 384 bytes in std");
                }
                st.probe_if(own == Some(CAP_PAYLOAD), "line payload exactly 384 bytes");
                st.probe_if(own_too_large, "line payload > 384 bytes");
                st.probe_if(
                    dead[n] && matches!(&o_std, Outcome::Incomplete(s, _) | Outcome::Complete(s, _) if s.n != 1 && s.k != 1),
                    "continuation of a group that is dead in none",
                );
            }
            // advance the observer from the std build's answer
            if own_too_large && o_none.is_err() {
                // (the std parser's Debug state is read only to label the window, never to judge)
                if std_state_before.as_deref() != Some(std_nodes[n].state().as_str()) {
                    desync[n] = true;
                    if let Some(st) = st.as_deref_mut() {
                        st.probe("desync window opened by an over-long fragment line");
                    }
                }
            }
            if let (Outcome::Incomplete(a, _), Outcome::Incomplete(_, _)) = (&o_std, &o_none) {
                if a.k == 1 {
                    desync[n] = false;
                }
            }
            match &o_std {
                Outcome::Incomplete(s, _) if s.k == 1 => {
                    acc[n] = s.data.len();
                    dead[n] = !matches!(o_none, Outcome::Incomplete(..));
                }
                Outcome::Incomplete(s, _) => {
                    acc[n] += s.data.len();
                    if !matches!(o_none, Outcome::Incomplete(..)) {
                        dead[n] = true;
                    }
                }
                Outcome::Complete(s, _) if s.n != 1 => {
                    acc[n] = 0;
                    dead[n] = false;
                }
                _ => {}
            }
        }
        if let Some(st) = st.as_deref_mut() {
            st.histories.insert(combined_history(&abs));
        }
        None
    }
}

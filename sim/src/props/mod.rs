//! One module per claimed property: a workload generator (pure function of the seed) and an
//! oracle (pure function of the delivered schedule and the real code's answers).

use crate::link::*;
use crate::nodes::*;
use crate::ops::*;
use crate::rng::Rng;
use crate::stats::*;
use crate::world::*;

pub mod c01;
pub mod c02;
pub mod c05;
pub mod c06;
pub mod c17;
pub mod c18;
pub mod c20;

pub trait Prop: Sync {
    fn id(&self) -> &'static str;
    /// builds the delivered schedule of run `run` — never touches the code under test
    fn generate(&self, seed: u64, run: u64) -> Scenario;
    /// executes the schedule against the real code and evaluates the oracle.
    /// `st` receives reach probes and coverage; pass `None` while minimising.
    fn judge(&self, sc: &Scenario, st: Option<&mut Stats>) -> Option<Violation>;
    /// may the minimiser drop this operation without invalidating the scenario?
    fn droppable(&self, _sc: &Scenario, _i: usize) -> bool {
        true
    }
    /// per-operation simplifications the minimiser may try (each must keep the scenario valid)
    fn simplify(&self, sc: &Scenario, i: usize) -> Vec<Op> {
        default_simplify(sc, i)
    }
}

pub fn by_id(id: &str) -> Option<Box<dyn Prop>> {
    match id {
        "C01" => Some(Box::new(c01::C01)),
        "C02" => Some(Box::new(c02::C02)),
        "C05" => Some(Box::new(c05::C05)),
        "C06" => Some(Box::new(c06::C06)),
        "C17" => Some(Box::new(c17::C17)),
        "C18" => Some(Box::new(c18::C18)),
        "C20" => Some(Box::new(c20::C20)),
        _ => None,
    }
}

static FORCED_SHAPE: std::sync::OnceLock<String> = std::sync::OnceLock::new();

/// `--shape <name>`: every run of the batch uses this scenario shape (set once, before any run)
pub fn force_shape(name: &str) {
    let _ = FORCED_SHAPE.set(name.to_string());
}

pub fn forced_shape() -> Option<&'static str> {
    FORCED_SHAPE.get().map(|s| s.as_str())
}

thread_local! {
    /// faults fired by the link of the run being generated that leave no operation behind
    static HIDDEN: std::cell::RefCell<Vec<Fault>> = const { std::cell::RefCell::new(Vec::new()) };
}

pub fn take_hidden_faults() -> Vec<Fault> {
    HIDDEN.with(|h| std::mem::take(&mut *h.borrow_mut()))
}

pub fn default_simplify(sc: &Scenario, i: usize) -> Vec<Op> {
    let mut out = Vec::new();
    if let Op::Line(l) = &sc.ops[i] {
        if let Some(orig) = &l.orig {
            // undo the fault: deliver the line as the station sent it
            let mut c = l.clone();
            c.bytes = orig.clone();
            c.orig = None;
            c.faults.clear();
            out.push(Op::Line(c));
        }
        // a shorter payload and a plain rendering, checksum recomputed (only for sentences that
        // lex with a valid checksum, so a line whose corruption matters is never "repaired")
        if l.sent.is_none() || l.role == Role::Traffic {
            if let Some(lx) = lex(&l.bytes) {
                if lx.fields.len() == 7 && lx.value == Some(xor(lx.body(&l.bytes)) as u32) {
                    let payload = lx.field(&l.bytes, 5).unwrap_or(b"").to_vec();
                    let mut cuts: Vec<usize> = vec![];
                    if payload.len() > 8 {
                        cuts.push(payload.len() / 2);
                    }
                    if payload.len() > 2 {
                        cuts.push(2);
                    }
                    if payload.len() > 1 {
                        cuts.push(1);
                    }
                    for cut in cuts {
                        let mut c = l.clone();
                        c.bytes = rewrite_fields(&l.bytes, &lx, &[(5, payload[..cut].to_vec())]);
                        c.orig = None;
                        c.sent = None;
                        out.push(Op::Line(c));
                    }
                    // plain style: no tag block, '!' start, no padding, two-digit checksum, no tail
                    let num = |i: usize| -> Option<u8> {
                        std::str::from_utf8(lx.field(&l.bytes, i)?).ok()?.parse::<u8>().ok()
                    };
                    if let (Some(n), Some(k), Some(fill)) = (num(1), num(2), num(6)) {
                        let idf = lx.field(&l.bytes, 3).unwrap_or(b"");
                        let id = if idf.is_empty() { Some(None) } else { num(3).map(Some) };
                        if let (Some(id), Some(addr)) = (id, lx.field(&l.bytes, 0)) {
                            if addr.len() == 5 {
                                let mut a = [0u8; 5];
                                a.copy_from_slice(addr);
                                let plain = make_line(&a, n, k, id, lx.field(&l.bytes, 4).unwrap_or(b""), &payload, fill);
                                if plain != l.bytes {
                                    let mut c = l.clone();
                                    c.bytes = plain;
                                    c.orig = None;
                                    out.push(Op::Line(c));
                                }
                            }
                        }
                    }
                }
            }
        }
        if l.decode {
            let mut c = l.clone();
            c.decode = false;
            out.push(Op::Line(c));
        }
        if l.conv_result {
            let mut c = l.clone();
            c.conv_result = false;
            out.push(Op::Line(c));
        }
        if l.node != 0 && sc.nodes == 1 {
            let mut c = l.clone();
            c.node = 0;
            out.push(Op::Line(c));
        }
    }
    out
}

/// a chaos workload: stations, scheduler, faulty link. Returns (ops, nodes, description).
pub fn chaos_ops(
    rng: &mut Rng,
    profile: LinkProfile,
    reassembly: bool,
    max_nodes: usize,
    cap: usize,
) -> (Vec<Op>, usize, String) {
    let nodes = if max_nodes <= 1 { 1 } else { *rng.pick(&[1usize, 1, 2, 3]) }.min(max_nodes);
    let tcfg = TrafficCfg::swarm(rng, reassembly);
    let fcfg = FaultCfg::swarm(rng, profile);
    let decode = DecodePolicy::swarm(rng);
    let (_stations, traffic) = gen_traffic(rng, &tcfg);
    let mut link = Link::new(&fcfg, nodes, decode);
    for e in &traffic {
        link.send(rng, e);
        if link.out.len() >= cap {
            break;
        }
    }
    link.flush(rng);
    // a misbehaving peer: lines composed relative to what was just on the wire (wrong numbers,
    // irregular numbering, over-long payloads, malformations), a few per run in some runs
    let composed = *rng.pick(&[0usize, 0, 0, 1, 2, 4]);
    for _ in 0..composed {
        if link.out.is_empty() {
            break;
        }
        let at = rng.below(link.out.len() + 1);
        let base = link.out[..at]
            .iter()
            .rev()
            .find_map(|o| match o {
                Op::Line(l) => l.sent.as_ref().map(|s| (s.n, s.k, s.id, l.node)),
                _ => None,
            })
            .unwrap_or((3, 1, Some(1), 0));
        let mut l = LineOp::plain(base.3, composed_line(rng, (base.0, base.1, base.2)), decode.draw(rng));
        l.conv_result = rng.ratio(1, 2);
        l.faults.push(Fault::RewriteHeader);
        link.out.insert(at, Op::Line(l));
    }
    let dropped = link.stats.fired[Fault::Drop.index()] as usize;
    HIDDEN.with(|h| h.borrow_mut().extend(std::iter::repeat(Fault::Drop).take(dropped)));
    let mut ops = std::mem::take(&mut link.out);
    ops.truncate(cap);
    let desc = format!(
        "nodes={} stations={} messages={} w_frag={:?} pool_ids={} burst={} decode={:?} payload={{w_len={:?},bad_char={},unsupported={},text_bias={},types={:?}}} link={{{}}}",
        nodes,
        tcfg.stations,
        tcfg.messages,
        tcfg.w_frag,
        tcfg.pool_ids,
        tcfg.burst_pm,
        decode,
        tcfg.payload.w_len,
        tcfg.payload.bad_char_pm,
        tcfg.payload.unsupported_pm,
        tcfg.payload.text_bias,
        tcfg.payload.types,
        fcfg.describe()
    );
    (ops, nodes, desc)
}


/// A line composed from a header taken relative to an open group `(n, k, id)` = last accepted
/// fragment (the next one, an opener, a repeat, a skip, another id, irregular numbering, an
/// unfragmented sentence, numbering near 255) x a payload size (small, exactly 384, beyond 384)
/// x a malformation (none, wrong checksum, fill out of range, empty payload, a field too many or
/// too few, truncated). Whether such a line is "benign" is never assumed: the oracles ask the
/// real parser.
pub fn composed_line(rng: &mut Rng, base: (u8, u8, Option<u8>)) -> Vec<u8> {
    // composed: a header relative to the open group x a payload size x a malformation, so
    // that combinations nobody listed by hand occur too
    let (bn, bk, bid) = base;
    let other_id = Some(bid.map(|v| ((v as u32 + 1 + rng.below(8) as u32) % 10) as u8).unwrap_or(3));
    let (n, k, id) = match rng.below(9) {
        0 => (bn.max(bk.saturating_add(1)), bk.saturating_add(1), bid), // the next one
        1 => (bn.max(2), 1, bid),                                       // an opener
        2 => (bn.max(bk), bk.max(1), bid),                              // a repeat
        3 => (bn.max(bk.saturating_add(2)), bk.saturating_add(2), bid), // a skip
        4 => (bn.max(bk.saturating_add(1)), bk.saturating_add(1), other_id),
        5 => (bn.max(bk.saturating_add(1)), bk.saturating_add(1), if bid.is_some() { None } else { Some(0) }),
        6 => *rng.pick(&[(0u8, 1u8, bid), (0, 1, None), (0, 2, bid), (1, 0, bid), (1, 2, bid), (2, 0, bid), (2, 3, bid), (1, 255, None)]),
        7 => (1, 1, bid),
        _ => (255, *rng.pick(&[1u8, 2, 254, 255]), bid),
    };
    let payload: Vec<u8> = match rng.below(4) {
        0 => (0..rng.range(385, 460)).map(|_| armor_char(rng.below(64) as u8)).collect(),
        1 => (0..384).map(|_| armor_char(rng.below(64) as u8)).collect(),
        _ => b"15M".to_vec(),
    };
    let line = make_line(b"AIVDM", n, k, id, b"A", &payload, rng.below(6) as u8);
    let lx = lex(&line).unwrap();
    let out = match rng.below(7) {
        0 => {
            let bad = (lx.value.unwrap() + 1 + rng.below(255) as u32) % 256;
            with_checksum(&line, &lx, bad, 2, true)
        }
        1 => rewrite_fields(&line, &lx, &[(6, rng.pick(&[&b"6"[..], b"7", b"9", b"16", b"", b"256"]).to_vec())]),
        2 => rewrite_fields(&line, &lx, &[(5, vec![])]),
        3 => {
            // one field too many / too few
            let mut v = line.clone();
            if rng.ratio(1, 2) {
                v.insert(lx.fields[4].start, b',');
            } else if let Some(pos) = v.iter().rposition(|&b| b == b',') {
                v.remove(pos);
            }
            v
        }
        4 => line[..line.len() - rng.range(1, 3)].to_vec(),
        _ => line.clone(),
    };
    out
}

/// The same rendering (tag block, delimiter, address, channel, payload, fill, number padding,
/// checksum digits and case, trailing bytes) carrying the header of an unfragmented sentence
/// ("1 of 1", no sequence id) and a valid checksum. Used to ask the real code whether it accepts
/// this *rendering* at all: the sentence grammar is not the business of the reassembly checks.
pub fn reheaded_unfragmented(line: &[u8]) -> Option<Vec<u8>> {
    let lx = lex(line)?;
    if lx.fields.len() != 7 || lx.digits == 0 {
        return None;
    }
    let pad = |i: usize| -> Vec<u8> {
        let w = lx.fields[i].len().max(1);
        format!("{:0w$}", 1, w = w).into_bytes()
    };
    let mut body: Vec<u8> = Vec::new();
    for (i, r) in lx.fields.iter().enumerate() {
        if i > 0 {
            body.push(b',');
        }
        match i {
            1 | 2 => body.extend_from_slice(&pad(i)),
            3 => {}
            _ => body.extend_from_slice(&line[r.clone()]),
        }
    }
    let value = xor(&body) as u32;
    let old_digits = &line[lx.star + 1..lx.star + 1 + lx.digits];
    let upper = !old_digits.iter().any(|b| b.is_ascii_lowercase());
    let digits = if value > 0xf { lx.digits.max(2) } else { lx.digits };
    let mut out = line[..=lx.delim].to_vec();
    out.extend_from_slice(&body);
    out.push(b'*');
    out.extend_from_slice(&render_checksum(value, digits.min(8), upper));
    out.extend_from_slice(&line[lx.star + 1 + lx.digits..]);
    Some(out)
}

/// a well-formed sentence with the given header, valid checksum, plain style
pub fn make_line(addr: &[u8; 5], n: u8, k: u8, id: Option<u8>, chan: &[u8], payload: &[u8], fill: u8) -> Vec<u8> {
    encode_line(
        &Hdr {
            addr: *addr,
            n,
            k,
            id,
            chan: chan.to_vec(),
            fill,
        },
        payload,
        &Style::plain(),
    )
}

/// executes line / restart operations on a set of nodes of one build, calling `f` after each
/// line with (op index, line op, outcome). Direct-API operations are skipped.
pub fn run_lines(
    build: Build,
    sc: &Scenario,
    mut f: impl FnMut(usize, &LineOp, &Outcome, &dyn Node) -> bool,
    mut on_restart: impl FnMut(usize, usize),
) {
    let mut nodes: Vec<Box<dyn Node>> = (0..sc.nodes.max(1)).map(|_| new_node(build)).collect();
    for (i, op) in sc.ops.iter().enumerate() {
        match op {
            Op::Line(l) => {
                let node = l.node.min(nodes.len() - 1);
                let out = nodes[node].parse(&l.bytes, l.decode, l.conv_result);
                if !f(i, l, &out, nodes[node].as_ref()) {
                    return;
                }
            }
            Op::Restart { node } => {
                let node = (*node).min(nodes.len() - 1);
                nodes[node].restart();
                on_restart(i, node);
            }
            _ => {}
        }
    }
}

pub fn sample_of(sc: &Scenario, max_ops: usize) -> String {
    let mut s = String::new();
    if let Some(st) = &sc.stream {
        let mut t = crate::json::show(&st.data);
        if t.len() > 400 {
            t.truncate(400);
            t.push('…');
        }
        let steps: Vec<String> = st.steps.iter().take(12).map(|n| if *n == 0 { "EINTR".to_string() } else { n.to_string() }).collect();
        return format!("stdin({} bytes)={} | read schedule: [{}{}]", st.data.len(), t, steps.join(","), if st.steps.len() > 12 { ",…" } else { "" });
    }
    for (i, op) in sc.ops.iter().take(max_ops).enumerate() {
        if i > 0 {
            s.push_str(" | ");
        }
        match op {
            Op::Line(l) => {
                let mut t = crate::json::show(&l.bytes);
                if t.len() > 70 {
                    t.truncate(70);
                    t.push('…');
                }
                s.push_str(&format!("n{}:{}", l.node, t));
                if !l.faults.is_empty() {
                    s.push_str(&format!(
                        " [{}]",
                        l.faults.iter().map(|f| f.name()).collect::<Vec<_>>().join(",")
                    ));
                }
            }
            Op::Restart { node } => s.push_str(&format!("RESTART n{}", node)),
            Op::Unarmor { bytes, fill } => {
                s.push_str(&format!("unarmor(len={},fill={})", bytes.len(), fill))
            }
            Op::Decode { bytes } => s.push_str(&format!("decode(len={})", bytes.len())),
        }
    }
    if sc.ops.len() > max_ops {
        s.push_str(&format!(" | … ({} ops)", sc.ops.len()));
    }
    s
}

//! Traffic scheduling (which station speaks next) and the faulty link between the
//! stations and the nodes. Every decision is drawn from the run's PRNG; every fault is
//! counted when it actually fires.

use crate::ops::*;
use crate::rng::Rng;
use crate::world::*;

pub const NF: usize = 26;

#[derive(Clone, Debug)]
pub struct FaultCfg {
    /// rate per fault kind in permille of deliveries (0 = disabled in this run)
    pub pm: [u32; NF],
    /// multiplier applied while a group is in flight (faults placed, not sprinkled)
    pub hot_boost: u32,
}

#[derive(Clone, Copy, Debug, PartialEq, Eq)]
pub enum LinkProfile {
    /// every fault kind may be enabled
    Chaos,
    /// loss / duplication / reordering / stale replay / header rewrite / restart dominate
    Reassembly,
    /// corruption faults dominate (checksum gate)
    Corruption,
    /// nothing
    Clean,
}

impl FaultCfg {
    pub fn none() -> Self {
        FaultCfg {
            pm: [0; NF],
            hot_boost: 1,
        }
    }

    pub fn swarm(rng: &mut Rng, profile: LinkProfile) -> Self {
        let mut c = FaultCfg::none();
        if profile == LinkProfile::Clean {
            return c;
        }
        c.hot_boost = *rng.pick(&[1u32, 2, 4]);
        let order = [
            Fault::Drop,
            Fault::Dup,
            Fault::DupLate,
            Fault::Swap,
            Fault::Hold,
            Fault::ReplayStale,
            Fault::RewriteHeader,
            Fault::Restart,
        ];
        let corrupt = [
            Fault::FlipBit,
            Fault::ReplaceByte,
            Fault::InsertByte,
            Fault::DeleteByte,
            Fault::Truncate,
            Fault::GarbageTail,
            Fault::Merge,
            Fault::Split,
            Fault::Noise,
        ];
        let formp = [
            Fault::ChecksumRendering,
            Fault::BadChecksum,
            Fault::FormPreservingByte,
            Fault::FormPreservingDigit,
        ];
        let (p_order, p_corrupt, p_form): (u32, u32, u32) = match profile {
            LinkProfile::Chaos => (2, 2, 2),
            LinkProfile::Reassembly => (3, 1, 1),
            LinkProfile::Corruption => (1, 3, 3),
            LinkProfile::Clean => (0, 0, 0),
        };
        // each kind enabled with probability p/4; rate from a small menu
        let rates: [u32; 5] = [10, 25, 50, 100, 200];
        for f in order {
            if rng.ratio(p_order, 4) {
                c.pm[f.index()] = *rng.pick(&rates);
            }
        }
        for f in corrupt {
            if rng.ratio(p_corrupt, 4) {
                c.pm[f.index()] = *rng.pick(&rates[..4]);
            }
        }
        for f in formp {
            if rng.ratio(p_form, 4) {
                c.pm[f.index()] = *rng.pick(&rates);
            }
        }
        // restarts are rare events
        c.pm[Fault::Restart.index()] = c.pm[Fault::Restart.index()].min(25);
        c
    }

    pub fn describe(&self) -> String {
        let mut s = String::new();
        for f in ALL_FAULTS {
            let r = self.pm[f.index()];
            if r > 0 {
                if !s.is_empty() {
                    s.push(' ');
                }
                s.push_str(&format!("{}={}", f.name(), r));
            }
        }
        format!("boost={} {}", self.hot_boost, s)
    }
}

#[derive(Clone, Debug)]
pub struct TrafficCfg {
    pub stations: usize,
    pub messages: usize,
    /// weights of fragment counts 1..=9
    pub w_frag: [u32; 9],
    pub pool_ids: bool,
    pub payload: PayloadCfg,
    /// permille chance that the scheduler stays with the station that just spoke
    pub burst_pm: u32,
    /// permille of messages taken from the recorded corpus (full sentences)
    pub corpus_pm: u32,
}

impl TrafficCfg {
    pub fn swarm(rng: &mut Rng, reassembly: bool) -> Self {
        let w_frag: [u32; 9] = if reassembly {
            *rng.pick(&[
                [1, 6, 5, 3, 2, 1, 0, 0, 1],
                [0, 5, 5, 0, 0, 0, 0, 0, 0],
                [2, 4, 4, 2, 1, 1, 1, 1, 1],
                [1, 8, 2, 1, 0, 0, 0, 0, 0],
            ])
        } else {
            *rng.pick(&[
                [10, 4, 2, 1, 1, 0, 0, 0, 0],
                [4, 4, 3, 2, 1, 1, 1, 1, 1],
                [1, 0, 0, 0, 0, 0, 0, 0, 0],
                [6, 6, 1, 0, 0, 0, 0, 0, 1],
            ])
        };
        TrafficCfg {
            stations: rng.range(1, 4),
            messages: rng.range(2, 14),
            w_frag,
            pool_ids: reassembly || rng.ratio(1, 3),
            payload: PayloadCfg::swarm(rng),
            burst_pm: *rng.pick(&[300u32, 600, 850, 950, 1000]),
            corpus_pm: *rng.pick(&[0u32, 50, 200]),
        }
    }
}

/// stations produce messages; a scheduler interleaves their lines
pub fn gen_traffic(rng: &mut Rng, cfg: &TrafficCfg) -> (Vec<Station>, Vec<Emitted>) {
    let mut stations: Vec<Station> = (0..cfg.stations)
        .map(|_| Station::random(rng, cfg.pool_ids))
        .collect();
    let mut queues: Vec<Vec<Emitted>> = vec![Vec::new(); cfg.stations];
    for g in 0..cfg.messages {
        let s = rng.below(cfg.stations);
        if rng.permille(cfg.corpus_pm) {
            // recorded traffic, as is
            if rng.ratio(1, 3) {
                for l in CORPUS_GROUP {
                    queues[s].push(emitted_from_line(l, s, g));
                }
            } else {
                let l = *rng.pick(CORPUS_LINES);
                queues[s].push(emitted_from_line(l, s, g));
            }
            continue;
        }
        let p = gen_payload(rng, &cfg.payload);
        let n = 1 + rng.weighted(&cfg.w_frag);
        let lines = stations[s].emit(rng, s, g, &p, n);
        queues[s].extend(lines);
    }
    // interleave
    let mut cursors = vec![0usize; cfg.stations];
    let mut out = Vec::new();
    let mut cur = rng.below(cfg.stations);
    loop {
        let pending: Vec<usize> = (0..cfg.stations)
            .filter(|&s| cursors[s] < queues[s].len())
            .collect();
        if pending.is_empty() {
            break;
        }
        if !(pending.contains(&cur) && rng.permille(cfg.burst_pm)) {
            cur = *rng.pick(&pending);
        }
        out.push(queues[cur][cursors[cur]].clone());
        cursors[cur] += 1;
    }
    (std::mem::take(&mut stations), out)
}

pub fn emitted_from_line(l: &[u8], station: usize, group: usize) -> Emitted {
    // header fields are recovered with the lexer; corpus lines are well-formed
    let lx = lex(l).expect("corpus line lexes");
    let f = |i: usize| lx.field(l, i).unwrap_or(b"");
    let num = |b: &[u8]| std::str::from_utf8(b).ok().and_then(|s| s.parse::<u8>().ok());
    let mut addr = [0u8; 5];
    addr.copy_from_slice(&f(0)[..5]);
    Emitted {
        bytes: l.to_vec(),
        hdr: Hdr {
            addr,
            n: num(f(1)).unwrap_or(1),
            k: num(f(2)).unwrap_or(1),
            id: num(f(3)),
            chan: f(4).to_vec(),
            fill: num(f(6)).unwrap_or(0),
        },
        piece: f(5).to_vec(),
        station,
        group,
    }
}

#[derive(Clone, Copy, Debug, PartialEq, Eq)]
pub enum DecodePolicy {
    On,
    Off,
    PerLine(u32),
}

impl DecodePolicy {
    pub fn swarm(rng: &mut Rng) -> Self {
        match rng.below(4) {
            0 => DecodePolicy::On,
            1 => DecodePolicy::Off,
            _ => DecodePolicy::PerLine(*rng.pick(&[200u32, 500, 800])),
        }
    }
    pub fn draw(self, rng: &mut Rng) -> bool {
        match self {
            DecodePolicy::On => true,
            DecodePolicy::Off => false,
            DecodePolicy::PerLine(pm) => rng.permille(pm),
        }
    }
}

#[derive(Clone, Debug, Default)]
pub struct LinkStats {
    pub fired: [u64; NF],
    pub emitted: u64,
    pub delivered: u64,
}

pub fn noise_line(rng: &mut Rng) -> Vec<u8> {
    let n = match rng.below(6) {
        0 => 0,
        1 => rng.range(1, 4),
        2 => rng.range(1, 400),
        _ => rng.range(1, 60),
    };
    let mode = rng.below(4);
    (0..n)
        .map(|_| match mode {
            0 => rng.byte(),
            1 => *rng.pick(b"!$\\*,0123456789AIVDMO"),
            2 => {
                if rng.ratio(1, 8) {
                    rng.range(0x80, 0xff) as u8
                } else {
                    rng.range(0x20, 0x7e) as u8
                }
            }
            _ => {
                if rng.ratio(1, 10) {
                    0
                } else {
                    rng.byte()
                }
            }
        })
        .filter(|&b| b != b'\n')
        .collect()
}

/// replaces the checksum digits of a (lexable) line by a rendering of `value`
pub fn with_checksum(line: &[u8], lx: &Lex, value: u32, digits: usize, upper: bool) -> Vec<u8> {
    let mut out = line[..=lx.star].to_vec();
    let digits = if value > 0xf && digits < 2 { 2 } else { digits };
    out.extend_from_slice(&render_checksum(value, digits, upper));
    out.extend_from_slice(&line[lx.star + 1 + lx.digits..]);
    out
}

/// rebuilds a line with body fields replaced and a *valid* checksum
pub fn rewrite_fields(line: &[u8], lx: &Lex, repl: &[(usize, Vec<u8>)]) -> Vec<u8> {
    let mut body: Vec<u8> = Vec::new();
    for (i, r) in lx.fields.iter().enumerate() {
        if i > 0 {
            body.push(b',');
        }
        if let Some((_, v)) = repl.iter().find(|(j, _)| *j == i) {
            body.extend_from_slice(v);
        } else {
            body.extend_from_slice(&line[r.clone()]);
        }
    }
    let mut out = line[..=lx.delim].to_vec();
    out.extend_from_slice(&body);
    out.push(b'*');
    out.extend_from_slice(&render_checksum(xor(&body) as u32, 2, true));
    out.extend_from_slice(&line[lx.star + 1 + lx.digits..]);
    out
}

fn other_byte(rng: &mut Rng, not: u8, forbid: &[u8]) -> u8 {
    loop {
        let b = if rng.ratio(2, 3) { rng.range(0x20, 0x7e) as u8 } else { rng.byte() };
        if b != not && !forbid.contains(&b) {
            return b;
        }
    }
}

/// one *form-preserving* single-byte replacement (C02 clause 3); None if not applicable
pub fn form_preserving_byte(rng: &mut Rng, line: &[u8], lx: &Lex) -> Option<Vec<u8>> {
    if lx.fields.len() != 7 {
        return None;
    }
    let which = *rng.pick(&[0usize, 4, 5, 5, 5]);
    let r = lx.fields[which].clone();
    if r.is_empty() {
        return None;
    }
    let i = r.start + rng.below(r.len());
    let mut out = line.to_vec();
    out[i] = other_byte(rng, line[i], b",*\n");
    Some(out)
}

/// one *form-preserving* digit replacement in n / k / id / fill; None if not applicable
pub fn form_preserving_digit(rng: &mut Rng, line: &[u8], lx: &Lex) -> Option<Vec<u8>> {
    if lx.fields.len() != 7 {
        return None;
    }
    let which = *rng.pick(&[1usize, 2, 3, 6]);
    let r = lx.fields[which].clone();
    if r.is_empty() {
        return None;
    }
    let i = r.start + rng.below(r.len());
    let mut out = line.to_vec();
    for _ in 0..8 {
        let d = if which == 6 { b'0' + rng.below(6) as u8 } else { b'0' + rng.below(10) as u8 };
        if d == line[i] {
            continue;
        }
        out[i] = d;
        let txt = std::str::from_utf8(&out[r.clone()]).ok()?;
        let ok = match txt.parse::<u32>() {
            Ok(v) => {
                if which == 6 {
                    v < 6
                } else {
                    v <= 255
                }
            }
            Err(_) => false,
        };
        // keep the numbering valid (1 <= k <= n): "well-formed" must not depend on whether a
        // parser chooses to police the numbering before or after the checksum
        let num = |which: usize| -> Option<u32> {
            std::str::from_utf8(&out[lx.fields[which].clone()]).ok()?.parse::<u32>().ok()
        };
        let numbering_ok = match (num(1), num(2)) {
            (Some(n), Some(k)) => k >= 1 && k <= n,
            _ => false,
        };
        if ok && numbering_ok {
            return Some(out);
        }
    }
    None
}

pub struct Link<'a> {
    pub cfg: &'a FaultCfg,
    pub nodes: usize,
    pub decode: DecodePolicy,
    pub stats: LinkStats,
    held: Vec<(usize, LineOp)>,
    history: Vec<LineOp>,
    pub out: Vec<Op>,
    hot: bool,
    merge_prefix: Option<(Vec<u8>, usize)>,
}

impl<'a> Link<'a> {
    pub fn new(cfg: &'a FaultCfg, nodes: usize, decode: DecodePolicy) -> Self {
        Link {
            cfg,
            nodes,
            decode,
            stats: LinkStats::default(),
            held: Vec::new(),
            history: Vec::new(),
            out: Vec::new(),
            hot: false,
            merge_prefix: None,
        }
    }

    fn fires(&mut self, rng: &mut Rng, f: Fault) -> bool {
        let base = self.cfg.pm[f.index()];
        if base == 0 {
            return false;
        }
        let pm = if self.hot { (base * self.cfg.hot_boost).min(600) } else { base };
        if rng.permille(pm) {
            self.stats.fired[f.index()] += 1;
            true
        } else {
            false
        }
    }

    fn deliver(&mut self, rng: &mut Rng, op: LineOp) {
        self.stats.delivered += 1;
        if self.history.len() < 64 {
            self.history.push(op.clone());
        } else {
            let i = rng.below(64);
            self.history[i] = op.clone();
        }
        self.out.push(Op::Line(op));
        // release held lines that are due
        let mut due = Vec::new();
        let mut i = 0;
        while i < self.held.len() {
            if self.held[i].0 == 0 {
                due.push(self.held.remove(i).1);
            } else {
                self.held[i].0 -= 1;
                i += 1;
            }
        }
        for d in due {
            self.stats.delivered += 1;
            self.out.push(Op::Line(d));
        }
    }

    pub fn node_of(&self, station: usize) -> usize {
        station % self.nodes
    }

    /// puts one station line on the link
    pub fn send(&mut self, rng: &mut Rng, e: &Emitted) {
        self.stats.emitted += 1;
        let node = self.node_of(e.station);
        let in_flight = e.hdr.k < e.hdr.n;

        if self.fires(rng, Fault::Restart) {
            let n = if rng.ratio(2, 3) { node } else { rng.below(self.nodes) };
            self.out.push(Op::Restart { node: n });
        }
        if self.fires(rng, Fault::Noise) {
            let mut l = LineOp::plain(node, noise_line(rng), self.decode.draw(rng));
            l.faults.push(Fault::Noise);
            l.conv_result = rng.ratio(1, 2);
            self.deliver(rng, l);
        }
        if !self.history.is_empty() && self.fires(rng, Fault::ReplayStale) {
            let mut l = rng.pick(&self.history).clone();
            l.faults.push(Fault::ReplayStale);
            l.role = Role::Traffic;
            self.deliver(rng, l);
        }
        if self.fires(rng, Fault::Drop) {
            self.hot = in_flight;
            return;
        }

        let mut op = LineOp::plain(node, e.bytes.clone(), self.decode.draw(rng));
        op.conv_result = rng.ratio(1, 2);
        op.form_ok = true;
        op.sent = Some(SentHdr {
            addr: e.hdr.addr.to_vec(),
            n: e.hdr.n,
            k: e.hdr.k,
            id: e.hdr.id,
            chan: e.hdr.chan.clone(),
            fill: e.hdr.fill,
            piece: e.piece.clone(),
        });

        // lost newline: this line is glued to the previous one
        if let Some((prefix, pnode)) = self.merge_prefix.take() {
            let mut b = prefix;
            b.extend_from_slice(&op.bytes);
            op.orig = Some(op.bytes.clone());
            op.bytes = b;
            op.node = pnode;
            op.form_ok = false;
            op.faults.push(Fault::Merge);
        }

        self.apply_corruption(rng, &mut op);

        if self.fires(rng, Fault::Merge) {
            self.merge_prefix = Some((op.bytes.clone(), op.node));
            self.hot = in_flight;
            return;
        }
        if op.bytes.len() >= 2 && self.fires(rng, Fault::Split) {
            let cut = rng.range(1, op.bytes.len() - 1);
            let mut a = op.clone();
            let mut b = op.clone();
            a.bytes = op.bytes[..cut].to_vec();
            b.bytes = op.bytes[cut..].to_vec();
            for x in [&mut a, &mut b] {
                x.form_ok = false;
                x.faults.push(Fault::Split);
                x.orig = Some(e.bytes.clone());
            }
            self.deliver(rng, a);
            self.deliver(rng, b);
            self.hot = in_flight;
            return;
        }
        if self.fires(rng, Fault::Hold) {
            op.faults.push(Fault::Hold);
            self.held.push((rng.range(1, 6), op));
            self.hot = in_flight;
            return;
        }
        if self.fires(rng, Fault::Swap) {
            op.faults.push(Fault::Swap);
            self.held.push((0, op));
            self.hot = in_flight;
            return;
        }
        let dup = self.fires(rng, Fault::Dup);
        let dup_late = self.fires(rng, Fault::DupLate);
        if dup_late {
            let mut c = op.clone();
            c.faults.push(Fault::DupLate);
            self.held.push((rng.range(1, 8), c));
        }
        if dup {
            let mut c = op.clone();
            c.faults.push(Fault::Dup);
            self.deliver(rng, op);
            self.deliver(rng, c);
        } else {
            self.deliver(rng, op);
        }
        self.hot = in_flight;
    }

    fn apply_corruption(&mut self, rng: &mut Rng, op: &mut LineOp) {
        let original = op.bytes.clone();
        // header rewrite by a misbehaving multiplexer: valid checksum, other numbering / id
        if self.fires(rng, Fault::RewriteHeader) {
            if let Some(lx) = lex(&op.bytes) {
                if lx.fields.len() == 7 && lx.value.is_some() {
                    let sent = op.sent.clone();
                    let (n, k, id) = match &sent {
                        Some(s) => (s.n, s.k, s.id),
                        None => (1, 1, None),
                    };
                    let mut repl: Vec<(usize, Vec<u8>)> = Vec::new();
                    match rng.below(6) {
                        0 => {
                            // other id
                            let nid = match id {
                                Some(v) => {
                                    if rng.ratio(1, 4) {
                                        None
                                    } else {
                                        Some(((v as u32 + 1 + rng.below(3) as u32) % 10) as u8)
                                    }
                                }
                                None => Some(*rng.pick(&[0u8, 1, 5, 9, 255, 255])),
                            };
                            let nid = if id == Some(255) && rng.ratio(1, 2) { None } else { nid };
                            repl.push((3, nid.map(|v| v.to_string().into_bytes()).unwrap_or_default()));
                        }
                        1 => {
                            // k shifted within 1..=n
                            let nk = 1 + rng.below(n.max(1) as usize) as u8;
                            repl.push((2, nk.to_string().into_bytes()));
                        }
                        2 => {
                            // group made longer: the final fragment becomes an inner one
                            let nn = n.saturating_add(1 + rng.below(3) as u8);
                            repl.push((1, nn.to_string().into_bytes()));
                        }
                        3 => {
                            // a fragment of a longer group, beyond what was sent
                            let nn = n.saturating_add(1 + rng.below(2) as u8);
                            repl.push((1, nn.to_string().into_bytes()));
                            repl.push((2, nn.to_string().into_bytes()));
                        }
                        4 => {
                            // k = k+1 / k-1
                            let nk = if rng.ratio(1, 2) { k.saturating_add(1) } else { k.saturating_sub(1).max(1) };
                            let nn = n.max(nk);
                            repl.push((1, nn.to_string().into_bytes()));
                            repl.push((2, nk.to_string().into_bytes()));
                        }
                        _ => {
                            // arbitrary valid numbering
                            let nn = rng.range(1, 9) as u8;
                            let nk = rng.range(1, nn as usize) as u8;
                            repl.push((1, nn.to_string().into_bytes()));
                            repl.push((2, nk.to_string().into_bytes()));
                        }
                    }
                    op.bytes = rewrite_fields(&op.bytes, &lx, &repl);
                    op.faults.push(Fault::RewriteHeader);
                    // it is a different, still well-formed sentence; what the station sent
                    // no longer describes it
                    op.sent = None;
                }
            }
        }
        if self.fires(rng, Fault::BadChecksum) {
            if let Some(lx) = lex(&op.bytes) {
                if let Some(v) = lx.value {
                    let mut nv = rng.below(256) as u32;
                    if nv == v {
                        nv = (nv + 1 + rng.below(254) as u32) % 256;
                    }
                    let digits = *rng.pick(&[2usize, 2, 2, 1, 3, 8]);
                    op.bytes = with_checksum(&op.bytes, &lx, nv, digits, rng.ratio(1, 2));
                    op.faults.push(Fault::BadChecksum);
                }
            }
        }
        if self.fires(rng, Fault::ChecksumRendering) {
            // the checksum field written in an unusual way: extra high digits in front of the
            // right (or a wrong) low byte, nine or more digits, extra digits behind, mixed case
            if let Some(lx) = lex(&op.bytes) {
                if lx.value.is_some() {
                    let x = xor(lx.body(&op.bytes)) as u32;
                    let low = if rng.ratio(3, 4) { x } else { rng.below(256) as u32 };
                    let mut digits: Vec<u8> = Vec::new();
                    match rng.below(5) {
                        0 => {
                            // non-zero digits above the low byte, 3..=8 digits in all
                            let extra = rng.range(1, 6);
                            for i in 0..extra {
                                digits.push(*rng.pick(if i == 0 { b"123456789ABCDEFabcdef".as_slice() } else { b"0123456789ABCDEF".as_slice() }));
                            }
                            digits.extend_from_slice(&render_checksum(low, 2, rng.ratio(1, 2)));
                        }
                        1 => {
                            // nine or more digits: only the first eight are read
                            let extra = rng.range(7, 12);
                            for i in 0..extra {
                                let lead = i == 0 && rng.ratio(1, 2);
                                digits.push(*rng.pick(if lead { b"1248Ff".as_slice() } else { b"0000000123456789ABCDEF".as_slice() }));
                            }
                            digits.extend_from_slice(&render_checksum(low, 2, rng.ratio(1, 2)));
                        }
                        2 => {
                            // right value followed by more hex digits
                            digits.extend_from_slice(&render_checksum(low, 2, true));
                            for _ in 0..rng.range(1, 8) {
                                digits.push(*rng.pick(b"0123456789ABCDEFabcdef"));
                            }
                        }
                        3 => {
                            // mixed case
                            let r = render_checksum(low, 2, true);
                            digits.push(r[0].to_ascii_lowercase());
                            digits.push(r[1]);
                        }
                        _ => {
                            let r = render_checksum(low, 2, false);
                            digits.push(r[0].to_ascii_uppercase());
                            digits.push(r[1]);
                        }
                    }
                    let mut out = op.bytes[..=lx.star].to_vec();
                    out.extend_from_slice(&digits);
                    out.extend_from_slice(&op.bytes[lx.star + 1 + lx.digits..]);
                    op.bytes = out;
                    op.form_ok = false;
                    op.faults.push(Fault::ChecksumRendering);
                }
            }
        }
        if self.fires(rng, Fault::FormPreservingByte) {
            if let Some(lx) = lex(&op.bytes) {
                if let Some(b) = form_preserving_byte(rng, &op.bytes, &lx) {
                    op.bytes = b;
                    op.faults.push(Fault::FormPreservingByte);
                    op.sent = None;
                }
            }
        }
        if self.fires(rng, Fault::FormPreservingDigit) {
            if let Some(lx) = lex(&op.bytes) {
                if let Some(b) = form_preserving_digit(rng, &op.bytes, &lx) {
                    op.bytes = b;
                    op.faults.push(Fault::FormPreservingDigit);
                    op.sent = None;
                }
            }
        }
        if !op.bytes.is_empty() && self.fires(rng, Fault::FlipBit) {
            let i = rng.below(op.bytes.len());
            op.bytes[i] ^= 1 << rng.below(8);
            if op.bytes[i] == b'\n' {
                op.bytes[i] = b'\r';
            }
            op.form_ok = false;
            op.faults.push(Fault::FlipBit);
        }
        if !op.bytes.is_empty() && self.fires(rng, Fault::ReplaceByte) {
            let i = rng.below(op.bytes.len());
            op.bytes[i] = other_byte(rng, op.bytes[i], b"\n");
            op.form_ok = false;
            op.faults.push(Fault::ReplaceByte);
        }
        if self.fires(rng, Fault::InsertByte) {
            let i = rng.below(op.bytes.len() + 1);
            let b = other_byte(rng, 0, b"\n");
            op.bytes.insert(i, b);
            op.form_ok = false;
            op.faults.push(Fault::InsertByte);
        }
        if !op.bytes.is_empty() && self.fires(rng, Fault::DeleteByte) {
            let i = rng.below(op.bytes.len());
            op.bytes.remove(i);
            op.form_ok = false;
            op.faults.push(Fault::DeleteByte);
        }
        if self.fires(rng, Fault::Truncate) {
            let keep = if rng.ratio(1, 8) { 0 } else { rng.below(op.bytes.len() + 1) };
            op.bytes.truncate(keep);
            op.form_ok = false;
            op.faults.push(Fault::Truncate);
        }
        if self.fires(rng, Fault::GarbageTail) {
            let n = rng.range(1, 12);
            for _ in 0..n {
                let b = other_byte(rng, 0, b"\n");
                op.bytes.push(b);
            }
            op.form_ok = false;
            op.faults.push(Fault::GarbageTail);
        }
        if op.bytes != original && op.orig.is_none() {
            op.orig = Some(original);
        }
    }

    /// end of the feed: whatever the link still holds is delivered
    pub fn flush(&mut self, rng: &mut Rng) {
        if let Some((prefix, node)) = self.merge_prefix.take() {
            let mut l = LineOp::plain(node, prefix, self.decode.draw(rng));
            l.faults.push(Fault::Merge);
            self.stats.delivered += 1;
            self.out.push(Op::Line(l));
        }
        let mut held = std::mem::take(&mut self.held);
        held.sort_by_key(|h| h.0);
        for (_, l) in held {
            self.stats.delivered += 1;
            self.out.push(Op::Line(l));
        }
    }
}

//! aissim — deterministic simulation with fault injection for squidpickles/ais.
//! See /verif/DESIGN.md. Built by /verif/check against the repository's working tree.

#![allow(dead_code)] // a few accessors are kept for replay tooling and future oracles

mod cli;
mod extra;
mod fidelity;
mod miri;
mod json;
mod link;
mod nodes;
mod ops;
mod props;
mod rng;
mod runner;
mod selftest;
mod stats;
mod watchdog;
mod world;

use runner::Args;

fn usage() -> ! {
    eprintln!(
        "usage: aissim check <C01|C02|C05|C06|C17|C18|C20> [--tier quick|thorough] [--seed N] [--runs N]\n\
         \x20              [--threads N] [--replay FILE] [--run I] [--no-evidence] [--max-seconds S]\n\
         \x20      aissim selftest-determinism [--runs N]\n\
         \x20      aissim cli-worker   (internal)"
    );
    std::process::exit(2);
}

fn main() {
    nodes::install_panic_hook();
    let argv: Vec<String> = std::env::args().collect();
    if argv.len() < 2 {
        usage();
    }
    let env_seed = std::env::var("VERIF_SEED")
        .ok()
        .and_then(|s| s.trim().parse::<u64>().ok());
    let env_tier = std::env::var("VERIF_TIER").ok().filter(|t| t == "quick" || t == "thorough");
    let mut args = Args {
        prop: String::new(),
        tier: env_tier.unwrap_or_else(|| "quick".into()),
        seed: env_seed.unwrap_or(runner::DEFAULT_SEED),
        runs: None,
        threads: std::thread::available_parallelism().map(|n| n.get()).unwrap_or(4),
        replay: None,
        run_index: None,
        first_run: 0,
        no_extras: false,
        write_evidence: true,
        log_hashes: false,
        max_seconds: None,
        quiet: false,
    };
    let cmd = argv[1].clone();
    let mut i = 2;
    if cmd == "check" {
        if argv.len() < 3 {
            usage();
        }
        args.prop = argv[2].clone();
        i = 3;
    }
    while i < argv.len() {
        let need = |i: usize| -> &str {
            if i + 1 >= argv.len() {
                usage();
            }
            &argv[i + 1]
        };
        match argv[i].as_str() {
            "--tier" => {
                args.tier = need(i).to_string();
                if args.tier != "quick" && args.tier != "thorough" {
                    usage();
                }
                i += 1;
            }
            "--seed" => {
                args.seed = need(i).parse().unwrap_or_else(|_| usage());
                i += 1;
            }
            "--runs" => {
                args.runs = Some(need(i).parse().unwrap_or_else(|_| usage()));
                i += 1;
            }
            "--threads" => {
                args.threads = need(i).parse().unwrap_or_else(|_| usage());
                i += 1;
            }
            "--replay" => {
                args.replay = Some(need(i).to_string());
                args.write_evidence = false;
                i += 1;
            }
            "--run" => {
                args.run_index = Some(need(i).parse().unwrap_or_else(|_| usage()));
                args.write_evidence = false;
                i += 1;
            }
            "--first-run" => {
                args.first_run = need(i).parse().unwrap_or_else(|_| usage());
                i += 1;
            }
            "--max-seconds" => {
                args.max_seconds = Some(need(i).parse().unwrap_or_else(|_| usage()));
                i += 1;
            }
            "--shape" => {
                // force one scenario shape of the property's generator (C17: "threads")
                props::force_shape(need(i));
                i += 1;
            }
            "--no-evidence" => args.write_evidence = false,
            "--no-extras" => args.no_extras = true,
            "--log-hashes" => args.log_hashes = true,
            "--quiet" => args.quiet = true,
            _ => usage(),
        }
        i += 1;
    }
    let code = match cmd.as_str() {
        "check" => {
            if std::env::var("AISSIM_CHILD").is_ok() {
                runner::cmd_check(&args)
            } else {
                runner::supervise(&args, &argv)
            }
        }
        "selftest-determinism" => selftest::cmd_selftest(&args),
        "hashes" => selftest::cmd_hashes(&args),
        _ => usage(),
    };
    std::process::exit(code);
}

//! Hang detection: the one place where real time enters. Each worker publishes which
//! operation it is executing and since when; a monitor thread reports an operation that has
//! been running for more than `LIMIT_S` seconds (normal duration: microseconds).

use std::cell::Cell;
use std::sync::atomic::{AtomicU64, AtomicUsize, Ordering};
use std::sync::{Arc, Mutex, OnceLock};
use std::time::Instant;

pub const LIMIT_S: u64 = 20;

pub struct Slot {
    /// milliseconds since `EPOCH` at which the current operation started; 0 = idle
    pub started_ms: AtomicU64,
    pub op_index: AtomicUsize,
    pub run_index: AtomicU64,
}

impl Default for Slot {
    fn default() -> Self {
        Slot {
            started_ms: AtomicU64::new(0),
            op_index: AtomicUsize::new(0),
            run_index: AtomicU64::new(0),
        }
    }
}

static EPOCH: OnceLock<Instant> = OnceLock::new();

fn now_ms() -> u64 {
    EPOCH.get_or_init(Instant::now).elapsed().as_millis() as u64 + 1
}

thread_local! {
    static MY_SLOT: Cell<Option<&'static Slot>> = const { Cell::new(None) };
}

pub fn register() -> &'static Slot {
    let slot: &'static Slot = Box::leak(Box::new(Slot::default()));
    MY_SLOT.with(|s| s.set(Some(slot)));
    slot
}

pub fn set_run(run: u64) {
    MY_SLOT.with(|s| {
        if let Some(slot) = s.get() {
            slot.run_index.store(run, Ordering::Relaxed);
        }
    });
}

#[inline]
pub fn enter(op_index: usize) {
    MY_SLOT.with(|s| {
        if let Some(slot) = s.get() {
            slot.op_index.store(op_index, Ordering::Relaxed);
            slot.started_ms.store(now_ms(), Ordering::Release);
        }
    });
}

#[inline]
pub fn leave() {
    MY_SLOT.with(|s| {
        if let Some(slot) = s.get() {
            slot.started_ms.store(0, Ordering::Release);
        }
    });
}

/// returns (run index, op index) of a worker stuck for more than the limit, if any
pub fn stuck(slots: &Arc<Mutex<Vec<&'static Slot>>>) -> Option<(u64, usize)> {
    let now = now_ms();
    for slot in slots.lock().unwrap().iter() {
        let t = slot.started_ms.load(Ordering::Acquire);
        // a whole simulated run (op index usize::MAX: the checks that do not publish single
        // operations) normally takes micro- to milliseconds, the largest shapes about a second:
        // six times the per-operation limit
        let limit = if slot.op_index.load(Ordering::Relaxed) == usize::MAX { LIMIT_S * 6 } else { LIMIT_S };
        if t != 0 && now.saturating_sub(t) > limit * 1000 {
            return Some((
                slot.run_index.load(Ordering::Relaxed),
                slot.op_index.load(Ordering::Relaxed),
            ));
        }
    }
    None
}

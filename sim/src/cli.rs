//! The repository's command-line tool, hosted in-process: the *unmodified* source of
//! `src/bin/aisparser.rs` is included below. `ais` resolves to the facade crate (real library
//! + scripted `lib::std::io`), and `println!` / `eprintln!` are shadowed by module-local
//! macros that append to the captured stdout / stderr of the current thread.

/// is the tool hosted in this binary? (false: it did not compile in here - e.g. it now needs
/// something a hosted module cannot have - and C20 judges the real executable only)
pub const HOSTED: bool = cfg!(feature = "hosted_cli");

#[cfg(feature = "hosted_cli")]
#[allow(unused_macros, dead_code, unused_imports)]
mod hosted {
    macro_rules! println {
        () => {{ ais::sim_io::push_out(b"\n"); }};
        ($($arg:tt)*) => {{
            let s = format!($($arg)*);
            ais::sim_io::push_out(s.as_bytes());
            ais::sim_io::push_out(b"\n");
        }};
    }
    macro_rules! eprintln {
        () => {{ ais::sim_io::push_err(b"\n"); }};
        ($($arg:tt)*) => {{
            let s = format!($($arg)*);
            ais::sim_io::push_err(s.as_bytes());
            ais::sim_io::push_err(b"\n");
        }};
    }
    macro_rules! print {
        ($($arg:tt)*) => {{
            let s = format!($($arg)*);
            ais::sim_io::push_out(s.as_bytes());
        }};
    }
    macro_rules! eprint {
        ($($arg:tt)*) => {{
            let s = format!($($arg)*);
            ais::sim_io::push_err(s.as_bytes());
        }};
    }

    // src/bin/aisparser.rs of the repository, leading inner doc comments / attributes turned
    // into plain comments by build.rs (they are not allowed in an include!d file)
    include!(concat!(env!("OUT_DIR"), "/aisparser_hosted.rs"));

    pub fn run() {
        let _ = main();
    }
}

pub use ais::sim_io::{IoStats, Step};

pub struct CliRun {
    pub panicked: Option<String>,
    pub stdout: Vec<u8>,
    pub stderr: Vec<u8>,
    pub consumed: usize,
    pub total: usize,
    pub stats: IoStats,
}

/// runs the CLI's `main()` on a scripted stdin; everything is per-thread
pub fn run_cli(data: &[u8], steps: &[usize]) -> CliRun {
    let steps: Vec<Step> = steps
        .iter()
        .map(|&n| if n == 0 { Step::Eintr } else { Step::Chunk(n) })
        .collect();
    ais::sim_io::install(data.to_vec(), steps);
    #[cfg(feature = "hosted_cli")]
    let r = crate::nodes::guard(hosted::run);
    #[cfg(not(feature = "hosted_cli"))]
    let r: Result<(), String> = Ok(());
    let s = ais::sim_io::take();
    CliRun {
        panicked: r.err(),
        stdout: s.out,
        stderr: s.err,
        consumed: s.pos,
        total: s.data.len(),
        stats: s.stats,
    }
}

//! Miri slice of C01 (thorough tier): a few dozen seeds of the no-alloc build under
//! `cargo +nightly miri run`, for undefined behaviour that would not show as a panic.

use crate::runner::{Args, EvidenceExtra};

pub fn c01_miri(_args: &Args) -> (EvidenceExtra, Vec<(String, String)>) {
    (EvidenceExtra { items: vec![] }, vec![])
}

//! Miri slice of C01 (thorough tier): `./check` runs a few slices of the same seeded runs
//! with the whole simulator under `cargo +nightly miri run` (all three builds, the no-alloc
//! one with the crate's single `unsafe` block among them) and leaves a summary in
//! $AISSIM_WORK/miri.json; this module folds it into the evidence and reports undefined
//! behaviour as a violation.

use crate::json::{self, J};
use crate::runner::{Args, EvidenceExtra};

pub fn c01_miri(args: &Args) -> (EvidenceExtra, Vec<(String, String)>) {
    let work = std::env::var("AISSIM_WORK").unwrap_or_else(|_| "/verif/target/work".into());
    let path = format!("{}/miri.json", work);
    let mut violations = Vec::new();
    let item = match std::fs::read_to_string(&path).ok().and_then(|s| json::parse(&s).ok()) {
        Some(j) => {
            let ub = j.get("undefined_behaviour_reports").and_then(|v| v.as_i64()).unwrap_or(0);
            if ub > 0 {
                let seed = j.get("seed").and_then(|v| v.as_str()).unwrap_or("?").to_string();
                violations.push((
                    format!("{}/replays/C01-miri-seed{}-slice*.log", crate::runner::verif_dir(), seed),
                    format!("clause=undefined-behaviour Miri reported undefined behaviour in {} slice(s); re-run: VERIF_SEED={} ./check C01 --tier thorough", ub, seed),
                ));
            }
            j
        }
        None => J::obj().set("ran", J::Bool(false)).set(
            "reason",
            J::Str(if args.tier == "thorough" {
                "no Miri summary found".into()
            } else {
                "Miri slice runs in the thorough tier only".into()
            }),
        ),
    };
    (
        EvidenceExtra {
            items: vec![("miri_slice".into(), item)],
        },
        violations,
    )
}

//! Miri slices (thorough tier): `./check` runs a few slices of seeded runs with the whole
//! simulator under `cargo +nightly miri run` and leaves a summary in $AISSIM_WORK/miri-<id>.json;
//! this module folds it into the evidence and relays what Miri found.
//!  * C01: all three builds (the no-alloc one with the crate's single `unsafe` block among them)
//!    on the first runs of the batch: undefined behaviour that does not show as a panic.
//!  * C17: the concurrent shape (one OS thread per parser). Under Miri the thread interleaving is
//!    a function of -Zmiri-seed (preemption at basic-block granularity), so a diverging result is
//!    exactly replayable (`./check C17 --replay <file> --miri <k>`), and a data race on state
//!    shared between parser instances is reported as undefined behaviour whatever the timing.

use crate::json::{self, J};
use crate::runner::{Args, EvidenceExtra};

pub fn c01_miri(args: &Args) -> (EvidenceExtra, Vec<(String, String)>) {
    miri_summary("C01", args)
}

pub fn miri_summary(prop: &str, args: &Args) -> (EvidenceExtra, Vec<(String, String)>) {
    let work = std::env::var("AISSIM_WORK").unwrap_or_else(|_| "/verif/target/work".into());
    let path = format!("{}/miri-{}.json", work, prop);
    // the slice may still be running beside the native batch (C17): wait for its summary
    let pending = format!("{}/miri-{}.pending", work, prop);
    let t0 = std::time::Instant::now();
    while std::path::Path::new(&pending).exists() && t0.elapsed().as_secs() < 1800 {
        std::thread::sleep(std::time::Duration::from_millis(200));
    }
    let mut violations = Vec::new();
    let item = match std::fs::read_to_string(&path).ok().and_then(|s| json::parse(&s).ok()) {
        Some(j) => {
            let seed = j.get("seed").and_then(|v| v.as_str()).unwrap_or("?").to_string();
            let logs = j.get("logs").and_then(|v| v.as_str()).unwrap_or("").to_string();
            let procs = j.get("processes").and_then(|v| v.as_i64()).unwrap_or(0);
            let ub = j.get("undefined_behaviour_reports").and_then(|v| v.as_i64()).unwrap_or(0);
            if ub > 0 {
                // first line of Miri's report, from the first slice that has one
                let mut what = String::new();
                let mut slice = 0;
                for k in 0..procs {
                    let log = format!("{}/replays/{}-miri-seed{}-slice{}.log", crate::runner::verif_dir(), prop, seed, k);
                    if let Ok(t) = std::fs::read_to_string(&log) {
                        if let Some(l) = t.lines().find(|l| l.contains("Undefined Behavior")) {
                            what = l.trim().chars().take(300).collect();
                            slice = k;
                            break;
                        }
                    }
                }
                let per = j.get("runs_per_process").and_then(|v| v.as_i64()).unwrap_or(1);
                let sim_args = j.get("simulator_args").and_then(|v| v.as_str()).unwrap_or("").to_string();
                violations.push((
                    format!("{}/replays/{}-miri-seed{}-slice{}.log", crate::runner::verif_dir(), prop, seed, slice),
                    format!(
                        "clause=undefined-behaviour site=miri Miri reported undefined behaviour in {} slice(s): {} — replays exactly with: ./check {} --seed {} --first-run {} --runs {} {} --miri {}",
                        ub, what, prop, seed, slice * per, per, sim_args, slice
                    ),
                ));
            }
            // violations found by the simulator itself while it ran under Miri (C17: a result that
            // diverges under Miri's schedule): relay them with the Miri seed that reproduces them
            let nviol = j.get("slices_with_violation").and_then(|v| v.as_i64()).unwrap_or(0);
            if nviol > 0 {
                for k in 0..procs {
                    let log = format!("{}/slice-{}.log", logs, k);
                    if let Ok(t) = std::fs::read_to_string(&log) {
                        let ls: Vec<&str> = t.lines().collect();
                        for (i, l) in ls.iter().enumerate() {
                            if let Some(rest) = l.strip_prefix(&format!("VIOLATION property={} replay=", prop)) {
                                let detail = ls.get(i + 1).map(|s| s.trim()).unwrap_or("");
                                violations.push((
                                    rest.trim().to_string(),
                                    format!("{} (found under Miri; replays exactly with: ./check {} --replay {} --miri {})", detail, prop, rest.trim(), k),
                                ));
                            }
                        }
                    }
                }
            }
            // interleavings observed under Miri's scheduler, per process (C17's concurrent shape)
            let mut counts: Vec<J> = Vec::new();
            let mut digests: std::collections::BTreeSet<String> = Default::default();
            let mut total = 0i64;
            for k in 0..procs {
                if let Ok(t) = std::fs::read_to_string(format!("{}/slice-{}.log", logs, k)) {
                    for l in t.lines() {
                        if let Some(i) = l.find("concurrent shape: ") {
                            let rest = &l[i + 18..];
                            let n: i64 = rest.split(' ').next().and_then(|x| x.parse().ok()).unwrap_or(0);
                            total += n;
                            counts.push(J::Int(n));
                            if let Some(d) = rest.rsplit(' ').next() {
                                digests.insert(d.to_string());
                            }
                        }
                    }
                }
            }
            if !counts.is_empty() {
                j.set("interleavings_observed", J::Int(total))
                    .set("interleavings_per_process", J::Arr(counts))
                    .set("distinct_process_digests", J::Int(digests.len() as i64))
            } else {
                j
            }
        }
        None => J::obj().set("ran", J::Bool(false)).set(
            "reason",
            J::Str(if args.tier == "thorough" || prop == "C17" {
                "no Miri summary found".into()
            } else {
                "Miri slice runs in the thorough tier only".into()
            }),
        ),
    };
    (
        EvidenceExtra {
            items: vec![("miri_slice".into(), item)],
        },
        violations,
    )
}

//! Minimal JSON value, writer and parser (std only, so that the framework has no
//! dependency to resolve offline). Objects keep insertion order.

use std::fmt::Write as _;

#[derive(Clone, Debug, PartialEq)]
pub enum J {
    Null,
    Bool(bool),
    Int(i64),
    Num(f64),
    Str(String),
    Arr(Vec<J>),
    Obj(Vec<(String, J)>),
}

impl J {
    pub fn obj() -> J {
        J::Obj(Vec::new())
    }
    pub fn set(mut self, k: &str, v: J) -> J {
        if let J::Obj(ref mut items) = self {
            if let Some(slot) = items.iter_mut().find(|(kk, _)| kk == k) {
                slot.1 = v;
            } else {
                items.push((k.to_string(), v));
            }
        }
        self
    }
    pub fn put(&mut self, k: &str, v: J) {
        if let J::Obj(ref mut items) = self {
            if let Some(slot) = items.iter_mut().find(|(kk, _)| kk == k) {
                slot.1 = v;
            } else {
                items.push((k.to_string(), v));
            }
        }
    }
    pub fn get(&self, k: &str) -> Option<&J> {
        match self {
            J::Obj(items) => items.iter().find(|(kk, _)| kk == k).map(|(_, v)| v),
            _ => None,
        }
    }
    pub fn str(s: &str) -> J {
        J::Str(s.to_string())
    }
    pub fn as_str(&self) -> Option<&str> {
        match self {
            J::Str(s) => Some(s),
            _ => None,
        }
    }
    pub fn as_i64(&self) -> Option<i64> {
        match self {
            J::Int(i) => Some(*i),
            J::Num(f) => Some(*f as i64),
            _ => None,
        }
    }
    pub fn as_u64(&self) -> Option<u64> {
        self.as_i64().map(|v| v as u64)
    }
    pub fn as_bool(&self) -> Option<bool> {
        match self {
            J::Bool(b) => Some(*b),
            _ => None,
        }
    }
    pub fn as_arr(&self) -> Option<&Vec<J>> {
        match self {
            J::Arr(a) => Some(a),
            _ => None,
        }
    }

    pub fn to_string_pretty(&self) -> String {
        let mut s = String::new();
        self.write(&mut s, 0, true);
        s.push('\n');
        s
    }
    pub fn to_string_compact(&self) -> String {
        let mut s = String::new();
        self.write(&mut s, 0, false);
        s
    }

    fn write(&self, out: &mut String, ind: usize, pretty: bool) {
        match self {
            J::Null => out.push_str("null"),
            J::Bool(b) => out.push_str(if *b { "true" } else { "false" }),
            J::Int(i) => {
                let _ = write!(out, "{}", i);
            }
            J::Num(f) => {
                if f.is_finite() {
                    let _ = write!(out, "{}", f);
                    if f.fract() == 0.0 && !out.ends_with(|c: char| c == 'e' || c == '.') {
                        // keep it a JSON number either way; "3" is fine
                    }
                } else {
                    out.push_str("null");
                }
            }
            J::Str(s) => write_str(out, s),
            J::Arr(a) => {
                if a.is_empty() {
                    out.push_str("[]");
                    return;
                }
                let simple = a
                    .iter()
                    .all(|x| matches!(x, J::Int(_) | J::Num(_) | J::Bool(_) | J::Null));
                out.push('[');
                for (i, x) in a.iter().enumerate() {
                    if i > 0 {
                        out.push(',');
                    }
                    if pretty && !simple {
                        out.push('\n');
                        push_indent(out, ind + 1);
                    }
                    x.write(out, ind + 1, pretty);
                }
                if pretty && !simple {
                    out.push('\n');
                    push_indent(out, ind);
                }
                out.push(']');
            }
            J::Obj(items) => {
                if items.is_empty() {
                    out.push_str("{}");
                    return;
                }
                out.push('{');
                for (i, (k, v)) in items.iter().enumerate() {
                    if i > 0 {
                        out.push(',');
                    }
                    if pretty {
                        out.push('\n');
                        push_indent(out, ind + 1);
                    }
                    write_str(out, k);
                    out.push(':');
                    if pretty {
                        out.push(' ');
                    }
                    v.write(out, ind + 1, pretty);
                }
                if pretty {
                    out.push('\n');
                    push_indent(out, ind);
                }
                out.push('}');
            }
        }
    }
}

fn push_indent(out: &mut String, n: usize) {
    for _ in 0..n {
        out.push(' ');
    }
}

fn write_str(out: &mut String, s: &str) {
    out.push('"');
    for c in s.chars() {
        match c {
            '"' => out.push_str("\\\""),
            '\\' => out.push_str("\\\\"),
            '\n' => out.push_str("\\n"),
            '\r' => out.push_str("\\r"),
            '\t' => out.push_str("\\t"),
            c if (c as u32) < 0x20 => {
                let _ = write!(out, "\\u{:04x}", c as u32);
            }
            c => out.push(c),
        }
    }
    out.push('"');
}

pub fn parse(src: &str) -> Result<J, String> {
    let mut p = P {
        b: src.as_bytes(),
        i: 0,
    };
    p.ws();
    let v = p.value()?;
    p.ws();
    if p.i != p.b.len() {
        return Err(format!("trailing data at byte {}", p.i));
    }
    Ok(v)
}

struct P<'a> {
    b: &'a [u8],
    i: usize,
}

impl<'a> P<'a> {
    fn ws(&mut self) {
        while self.i < self.b.len() && matches!(self.b[self.i], b' ' | b'\n' | b'\r' | b'\t') {
            self.i += 1;
        }
    }
    fn eat(&mut self, c: u8) -> Result<(), String> {
        if self.i < self.b.len() && self.b[self.i] == c {
            self.i += 1;
            Ok(())
        } else {
            Err(format!("expected '{}' at byte {}", c as char, self.i))
        }
    }
    fn value(&mut self) -> Result<J, String> {
        self.ws();
        if self.i >= self.b.len() {
            return Err("unexpected end".into());
        }
        match self.b[self.i] {
            b'{' => {
                self.i += 1;
                let mut items = Vec::new();
                self.ws();
                if self.i < self.b.len() && self.b[self.i] == b'}' {
                    self.i += 1;
                    return Ok(J::Obj(items));
                }
                loop {
                    self.ws();
                    let k = self.string()?;
                    self.ws();
                    self.eat(b':')?;
                    let v = self.value()?;
                    items.push((k, v));
                    self.ws();
                    if self.i < self.b.len() && self.b[self.i] == b',' {
                        self.i += 1;
                        continue;
                    }
                    self.eat(b'}')?;
                    return Ok(J::Obj(items));
                }
            }
            b'[' => {
                self.i += 1;
                let mut items = Vec::new();
                self.ws();
                if self.i < self.b.len() && self.b[self.i] == b']' {
                    self.i += 1;
                    return Ok(J::Arr(items));
                }
                loop {
                    let v = self.value()?;
                    items.push(v);
                    self.ws();
                    if self.i < self.b.len() && self.b[self.i] == b',' {
                        self.i += 1;
                        continue;
                    }
                    self.eat(b']')?;
                    return Ok(J::Arr(items));
                }
            }
            b'"' => Ok(J::Str(self.string()?)),
            b't' => self.lit("true", J::Bool(true)),
            b'f' => self.lit("false", J::Bool(false)),
            b'n' => self.lit("null", J::Null),
            _ => self.number(),
        }
    }
    fn lit(&mut self, word: &str, v: J) -> Result<J, String> {
        if self.b[self.i..].starts_with(word.as_bytes()) {
            self.i += word.len();
            Ok(v)
        } else {
            Err(format!("bad literal at byte {}", self.i))
        }
    }
    fn number(&mut self) -> Result<J, String> {
        let start = self.i;
        let mut float = false;
        while self.i < self.b.len() {
            match self.b[self.i] {
                b'0'..=b'9' | b'-' | b'+' => {}
                b'.' | b'e' | b'E' => float = true,
                _ => break,
            }
            self.i += 1;
        }
        let s = std::str::from_utf8(&self.b[start..self.i]).map_err(|e| e.to_string())?;
        if s.is_empty() {
            return Err(format!("unexpected byte at {}", start));
        }
        if float {
            s.parse::<f64>().map(J::Num).map_err(|e| e.to_string())
        } else {
            match s.parse::<i64>() {
                Ok(v) => Ok(J::Int(v)),
                Err(_) => s.parse::<f64>().map(J::Num).map_err(|e| e.to_string()),
            }
        }
    }
    fn string(&mut self) -> Result<String, String> {
        self.eat(b'"')?;
        let mut out = Vec::new();
        while self.i < self.b.len() {
            let c = self.b[self.i];
            self.i += 1;
            match c {
                b'"' => return String::from_utf8(out).map_err(|e| e.to_string()),
                b'\\' => {
                    if self.i >= self.b.len() {
                        break;
                    }
                    let e = self.b[self.i];
                    self.i += 1;
                    match e {
                        b'n' => out.push(b'\n'),
                        b'r' => out.push(b'\r'),
                        b't' => out.push(b'\t'),
                        b'b' => out.push(8),
                        b'f' => out.push(12),
                        b'u' => {
                            if self.i + 4 > self.b.len() {
                                return Err("bad \\u".into());
                            }
                            let h = std::str::from_utf8(&self.b[self.i..self.i + 4])
                                .map_err(|e| e.to_string())?;
                            let cp = u32::from_str_radix(h, 16).map_err(|e| e.to_string())?;
                            self.i += 4;
                            let ch = char::from_u32(cp).unwrap_or('\u{fffd}');
                            let mut buf = [0u8; 4];
                            out.extend_from_slice(ch.encode_utf8(&mut buf).as_bytes());
                        }
                        other => out.push(other),
                    }
                }
                c => out.push(c),
            }
        }
        Err("unterminated string".into())
    }
}

pub fn hex(bytes: &[u8]) -> String {
    let mut s = String::with_capacity(bytes.len() * 2);
    for b in bytes {
        let _ = write!(s, "{:02x}", b);
    }
    s
}

pub fn unhex(s: &str) -> Result<Vec<u8>, String> {
    let b = s.as_bytes();
    if b.len() % 2 != 0 {
        return Err("odd hex length".into());
    }
    let mut out = Vec::with_capacity(b.len() / 2);
    for i in (0..b.len()).step_by(2) {
        let h = std::str::from_utf8(&b[i..i + 2]).map_err(|e| e.to_string())?;
        out.push(u8::from_str_radix(h, 16).map_err(|e| e.to_string())?);
    }
    Ok(out)
}

/// printable rendering of a line for humans (never parsed back)
pub fn show(bytes: &[u8]) -> String {
    let mut s = String::new();
    for &b in bytes {
        match b {
            b'\\' => s.push_str("\\\\"),
            0x20..=0x7e => s.push(b as char),
            b'\r' => s.push_str("\\r"),
            b'\n' => s.push_str("\\n"),
            _ => {
                let _ = write!(s, "\\x{:02x}", b);
            }
        }
    }
    s
}

//! The model side of the simulation: transmitters (stations), their payloads, the NMEA
//! encoder and a minimal lexer that follows the words of property C02.
//! None of this exists in the repository; it only has to produce the line sequences a
//! receiver can see. No oracle depends on it being realistic.

use crate::rng::Rng;
use std::ops::Range;

// ---------------------------------------------------------------------------------------
// recorded traffic: the vectors that appear in the repository's tests and README
// ---------------------------------------------------------------------------------------

pub const CORPUS_LINES: &[&[u8]] = &[
    b"!AIVDM,1,1,,,34RvgN500005tLTMfjiTs3u`0>`<,0*7A",
    b"!AIVDM,1,1,,A,403OtVAv6s5l1o?I``E`4I?02<34,0*21",
    b"!AIVDM,1,1,,A,E>kb9I99S@0`8@:9ah;0TahI7@@;V4=v:nv;h00003vP100,0*7A",
    b"!AIVDM,1,1,,A,ENkb9H2`:@17W4b0h@@@@@@@@@@;WSEi:lK9800003vP000,0*08",
    b"!AIVDM,1,1,,B,403OtVAv6s5lOo?I`pE`4KO02<34,0*3E",
    b"!AIVDM,1,1,,B,E>kb9O9aS@7PUh10dh19@;0Tah2cWrfP:l?M`00003vP100,0*01",
    b"!AIVDM,1,1,,B,ENkb9U79PW@80Q67h10dh1T6@Hq;`0W8:peOH00003vP000,0*1C",
    b"\\s:2573345,c:1696241893*00\\!AIVDM,1,1,,A,E>kb9I99S@0`8@:9ah;0TahI7@@;V4=v:nv;h00003vP100,0*7A",
];

pub const CORPUS_GROUP: &[&[u8]] = &[
    b"!AIVDM,2,1,1,B,53`soB8000010KSOW<0P4eDp4l6000000000000U0p<24t@P05H3S833CDP00000,0*78",
    b"!AIVDM,2,2,1,B,0000000,2*26",
];

pub const CORPUS_PAYLOADS: &[(&[u8], u8)] = &[
    (b"13u?etPv2;0n:dDPwUM1U1Cb069D", 0),
    (b"16SteH0P00Jt63hHaa6SagvJ087r", 0),
    (b"33nQ:B50000FiEBRjpcK19qSR>`<", 0),
    (b"38Id705000rRVJhE7cl9n;160000", 0),
    (b"403OtVAv7=i?;o?IaHE`4Iw020S:", 0),
    (b"403OviQuMGCqWrRO9>E6fE700@GO", 0),
    (b"4h2E:qT47wk?0<tSF0l4Q@000d;@", 0),
    (b"5341U9`00000uCGCKL0u=@T4000000000000001?<@<47u;b004Sm51DQ0C@", 0),
    (b"53`soB8000010KSOW<0P4eDp4l6000000000000U0p<24t@P05H3S833CDP000000000000", 0),
    (b"6>jR0600V:C0>da4P106P00", 2),
    (b"6B?n;be:cbapalgc;i6?Ow4", 2),
    (b"702R5`hwCjq8", 0),
    (b"702R5`hwCt40", 0),
    (b"8@2<HW@0BkdhF0dcH5R`Q@kDJjD;WwfRwwwwwwwwwwwwwwwwwwwwwwwwwt0", 0),
    (b"8@2R5Ph0GhEa?1bGBviEOwvlFR06EuOwgqriwnSwe7wvlOwwsAwwnSGmwvwt", 0),
    (b"91b55wi;hbOS@OdQAC062Ch2089h", 0),
    (b":5MlU41GMK6@", 0),
    (b":6TMCD1GOS60", 0),
    (b";03sl8AvA;5AO7gnf@<FdSA00000", 0),
    (b"<42Lati0W:Ov=C7P6B?=Pjoihhjhqq0", 2),
    (b"<5?SIj1;GbD07??4", 0),
    (b"=39UOj0jFs9R", 0),
    (b">5?Per18=HB1U:1@E=B0m<L", 2),
    (b"?03Owo@nwsI0D00", 2),
    (b"?04759iVhc2lD003000", 2),
    (b"?>eq`dAh3`TQP00", 0),
    (b"@01uEO@hsqJ0<P00", 0),
    (b"@01uEO@mMk7P<P00", 0),
    (b"@6STUk004lQ206bCKNOBAb6SJ@5s", 0),
    (b"B6:hQDh0029Pt<4TAS003h6TSP00", 0),
    (b"C6:ijoP00:9NNF4TEspILDN0Vc0jNc1WWV0000000000S2<6R20P", 0),
    (b"D02;bK0RlLfq6DM6DA8u6D0", 0),
    (b"D02<HjiUHBfr<`E6D0", 0),
    (b"E>kb9II9S@0`8@:9ah;0TahIW@@;Uafb:r5Ih00003vP100", 0),
    (b"G02OHAP8aLvg@@b1tF600000;00", 0),
    (b"H3mr@L4NC=D62?P<7nmpl00@8220", 0),
    (b"H6:lEgQL4r1<QDr0P4pN3KSKP00", 0),
    (b"H>cfmI4UFC@0DAN00000000H3110", 0),
    (b"K01;FQh?PbtE3P00", 0),
    (b"KC5E2b@U19PFdLbMuc5=ROv62<7m", 0),
];

// ---------------------------------------------------------------------------------------
// armouring
// ---------------------------------------------------------------------------------------

/// 6-bit value -> armouring character
#[inline]
pub fn armor_char(v: u8) -> u8 {
    debug_assert!(v < 64);
    if v < 40 {
        v + 48
    } else {
        v + 56
    }
}

/// armouring character -> 6-bit value, if in the alphabet
#[inline]
pub fn unarmor_char(c: u8) -> Option<u8> {
    match c {
        48..=87 => Some(c - 48),
        96..=119 => Some(c - 56),
        _ => None,
    }
}

/// bits (msb first) -> armoured characters and fill count
pub fn armor_bits(bits: &[bool]) -> (Vec<u8>, u8) {
    let nchars = (bits.len() + 5) / 6;
    let mut out = Vec::with_capacity(nchars);
    for c in 0..nchars {
        let mut v = 0u8;
        for b in 0..6 {
            let i = c * 6 + b;
            v <<= 1;
            if i < bits.len() && bits[i] {
                v |= 1;
            }
        }
        out.push(armor_char(v));
    }
    ((out), (nchars * 6 - bits.len()) as u8)
}

fn set_bits(bits: &mut [bool], off: usize, width: usize, val: u64) {
    for i in 0..width {
        if off + i < bits.len() {
            bits[off + i] = (val >> (width - 1 - i)) & 1 == 1;
        }
    }
}

pub const SUPPORTED_TYPES: &[u8] = &[
    1, 2, 3, 4, 5, 6, 7, 8, 9, 10, 11, 12, 13, 14, 15, 16, 17, 18, 19, 20, 21, 24, 27,
];

/// specification-legal bit lengths (representative set per type)
fn legal_lengths(t: u8, rng: &mut Rng) -> usize {
    match t {
        1..=4 | 9 | 11 | 18 => 168,
        5 => *rng.pick(&[424usize, 422, 420]),
        6 => 88 + 8 * rng.below(116),
        7 | 13 => 72 + 32 * rng.below(4),
        8 => 56 + 8 * rng.below(120),
        10 => 72,
        12 => 72 + 6 * rng.below(157),
        14 => 40 + 6 * rng.below(162),
        15 => *rng.pick(&[88usize, 110, 112, 160]),
        16 => *rng.pick(&[96usize, 144]),
        17 => 80 + 8 * rng.below(93),
        19 => 312,
        20 => 72 + 30 * rng.below(4),
        21 => 272 + 6 * rng.below(16),
        24 => *rng.pick(&[160usize, 168]),
        27 => 96,
        _ => 168,
    }
}

/// (offset, width in bits) of the text ranges of a type, for biased text generation
fn text_ranges(t: u8, len: usize) -> Vec<(usize, usize)> {
    match t {
        5 => vec![(70, 42), (112, 120), (302, 120)],
        12 => vec![(72, len.saturating_sub(72))],
        14 => vec![(40, len.saturating_sub(40))],
        19 => vec![(143, 120)],
        21 => vec![(43, 120)],
        24 => vec![(40, 120), (48, 18), (90, 42)],
        _ => vec![],
    }
}

#[derive(Clone, Debug)]
pub struct Payload {
    pub chars: Vec<u8>,
    pub fill: u8,
    pub ty: u8,
}

/// knobs of the payload generator, varied per run (swarm style)
#[derive(Clone, Debug)]
pub struct PayloadCfg {
    /// weight of: legal length, legal +- few bits, arbitrary length, capacity-straddling, corpus
    pub w_len: [u32; 5],
    /// permille of payloads containing a byte outside the armouring alphabet
    pub bad_char_pm: u32,
    /// permille of payloads of an unsupported type
    pub unsupported_pm: u32,
    /// bias text ranges towards padding characters
    pub text_bias: bool,
    /// restrict types (empty = all supported)
    pub types: Vec<u8>,
}

impl PayloadCfg {
    pub fn swarm(rng: &mut Rng) -> Self {
        let mut w = [0u32; 5];
        for x in w.iter_mut() {
            *x = if rng.ratio(3, 4) { 1 + rng.below(8) as u32 } else { 0 };
        }
        if w.iter().all(|&x| x == 0) {
            w[0] = 1;
        }
        let types = if rng.ratio(1, 3) {
            let k = 1 + rng.below(4);
            (0..k).map(|_| *rng.pick(SUPPORTED_TYPES)).collect()
        } else {
            vec![]
        };
        PayloadCfg {
            w_len: w,
            bad_char_pm: *rng.pick(&[0, 0, 10, 50]),
            unsupported_pm: *rng.pick(&[0, 30, 100]),
            text_bias: rng.ratio(1, 2),
            types,
        }
    }
}

pub fn gen_payload(rng: &mut Rng, cfg: &PayloadCfg) -> Payload {
    let class = rng.weighted(&cfg.w_len);
    if class == 4 {
        let (p, f) = *rng.pick(CORPUS_PAYLOADS);
        return Payload {
            chars: p.to_vec(),
            fill: f,
            ty: unarmor_char(p[0]).unwrap_or(0),
        };
    }
    let ty = if rng.permille(cfg.unsupported_pm) {
        rng.below(64) as u8
    } else if !cfg.types.is_empty() {
        *rng.pick(&cfg.types)
    } else {
        *rng.pick(SUPPORTED_TYPES)
    };
    let legal = legal_lengths(ty, rng);
    let len = match class {
        0 => legal,
        1 => (legal as i64 + rng.range(0, 16) as i64 - 8).max(1) as usize,
        2 => match rng.below(4) {
            0 => rng.range(1, 48),
            1 => rng.range(1, 200),
            2 => rng.range(1, 1100),
            _ => rng.range(1, 2400),
        },
        _ => {
            // sizes straddling the fixed capacities of the no-alloc build
            match ty {
                6 => (11 + rng.range(117, 121)) * 8 - rng.below(8),
                8 => (7 + rng.range(117, 121)) * 8 - rng.below(8),
                17 => (15 + rng.range(117, 121)) * 8 - rng.below(8),
                12 => 72 + 6 * rng.range(18, 23) + rng.below(6),
                14 => 40 + 6 * rng.range(18, 23) + rng.below(6),
                _ => 6 * rng.range(381, 387) - rng.below(6),
            }
        }
    };
    let len = len.max(1);
    let mut bits: Vec<bool> = Vec::with_capacity(len);
    // random bits, in one of three densities (all-random, mostly zero, mostly one)
    let density = rng.below(5);
    let mut word = 0u64;
    for i in 0..len {
        if i % 64 == 0 {
            word = match density {
                0 => rng.next_u64() & rng.next_u64() & rng.next_u64(),
                1 => rng.next_u64() | rng.next_u64() | rng.next_u64(),
                _ => rng.next_u64(),
            };
        }
        bits.push((word >> (i % 64)) & 1 == 1);
    }
    set_bits(&mut bits, 0, 6, ty as u64);
    if cfg.text_bias {
        for (off, width) in text_ranges(ty, len) {
            let nch = width / 6;
            let lead = rng.below(4).min(nch);
            let trail = rng.below(6).min(nch - lead);
            for c in 0..nch {
                let v: u64 = if c < lead {
                    *rng.pick(&[32u64, 32, 0])
                } else if c >= nch - trail {
                    *rng.pick(&[0u64, 0, 32])
                } else if rng.ratio(1, 6) {
                    *rng.pick(&[0u64, 32])
                } else {
                    rng.below(64) as u64
                };
                set_bits(&mut bits, off + c * 6, 6, v);
            }
        }
    }
    let (mut chars, mut fill) = armor_bits(&bits);
    if rng.ratio(1, 12) {
        fill = rng.below(6) as u8;
    }
    if rng.permille(cfg.bad_char_pm) && !chars.is_empty() {
        let i = rng.below(chars.len());
        chars[i] = *rng.pick(&[88u8, 95, 47, 120, 127, 0, 0x80, 0xff, b' ', b'\\']);
    }
    Payload { chars, fill, ty }
}

/// splits `chars` into `n` non-empty pieces at arbitrary boundaries (needs chars.len() >= n)
pub fn split_payload(rng: &mut Rng, chars: &[u8], n: usize) -> Vec<Vec<u8>> {
    assert!(n >= 1 && chars.len() >= n);
    let mut cuts: Vec<usize> = Vec::new();
    // choose n-1 distinct cut points in 1..len
    let len = chars.len();
    if rng.ratio(1, 3) {
        // near-even split
        for i in 1..n {
            cuts.push(i * len / n);
        }
        cuts.dedup();
    }
    while cuts.len() < n - 1 {
        let c = rng.range(1, len - 1);
        if !cuts.contains(&c) {
            cuts.push(c);
        }
    }
    cuts.sort_unstable();
    cuts.dedup();
    while cuts.len() < n - 1 {
        // dedup of the even split collapsed some cuts (tiny payload): fill up
        for c in 1..len {
            if !cuts.contains(&c) {
                cuts.push(c);
                break;
            }
        }
        cuts.sort_unstable();
    }
    let mut out = Vec::with_capacity(n);
    let mut prev = 0;
    for c in cuts.into_iter().chain(std::iter::once(len)) {
        out.push(chars[prev..c].to_vec());
        prev = c;
    }
    out
}

// ---------------------------------------------------------------------------------------
// NMEA encoding
// ---------------------------------------------------------------------------------------

#[derive(Clone, Debug, PartialEq, Eq)]
pub struct Hdr {
    pub addr: [u8; 5],
    pub n: u8,
    pub k: u8,
    pub id: Option<u8>,
    pub chan: Vec<u8>,
    pub fill: u8,
}

#[derive(Clone, Debug)]
pub struct Style {
    pub delim: u8,
    pub tag_block: Option<Vec<u8>>,
    /// number of hex digits of the checksum (1..=8; value is left-padded with zeros)
    pub cs_digits: usize,
    pub cs_upper: bool,
    /// bytes after the checksum (never starting with a hex digit)
    pub tail: Vec<u8>,
    /// width to which n, k, id and fill are left-padded with zeros (1 = none)
    pub num_width: usize,
}

impl Style {
    pub fn plain() -> Self {
        Style {
            delim: b'!',
            tag_block: None,
            cs_digits: 2,
            cs_upper: true,
            tail: vec![],
            num_width: 1,
        }
    }
    pub fn random(rng: &mut Rng) -> Self {
        let tag_block = if rng.ratio(1, 6) {
            let n = rng.below(24);
            let mut t: Vec<u8> = Vec::new();
            for _ in 0..n {
                let b = match rng.below(8) {
                    0 => b'*',
                    1 => b',',
                    2 => b'!',
                    3 => b'$',
                    4 => rng.byte(),
                    _ => *rng.pick(b"sc:0123456789"),
                };
                if b != b'\\' && b != b'\n' {
                    t.push(b);
                }
            }
            Some(t)
        } else {
            None
        };
        let tail = match rng.below(8) {
            0 => b"\r".to_vec(),
            1 => b"\r\n".to_vec(),
            2 => b" ".to_vec(),
            3 => {
                let n = rng.range(1, 6);
                let mut t = vec![*rng.pick(b"xyz,*!-\\ \rGg")];
                for _ in 1..n {
                    t.push(rng.byte());
                }
                t
            }
            _ => vec![],
        };
        Style {
            delim: if rng.ratio(1, 5) { b'$' } else { b'!' },
            tag_block,
            cs_digits: *rng.pick(&[2usize, 2, 2, 2, 2, 1, 3, 4, 8]),
            cs_upper: rng.ratio(3, 4),
            tail,
            num_width: *rng.pick(&[1usize, 1, 1, 1, 2, 3, 6]),
        }
    }
}

pub fn xor(bytes: &[u8]) -> u8 {
    bytes.iter().fold(0u8, |a, &b| a ^ b)
}

pub fn render_checksum(value: u32, digits: usize, upper: bool) -> Vec<u8> {
    let s = if upper {
        format!("{:0width$X}", value, width = digits)
    } else {
        format!("{:0width$x}", value, width = digits)
    };
    s.into_bytes()
}

fn push_num(out: &mut Vec<u8>, v: u8, width: usize) {
    out.extend_from_slice(format!("{:0width$}", v, width = width).as_bytes());
}

/// body = everything strictly between the delimiter and '*'
pub fn encode_body(h: &Hdr, payload: &[u8], num_width: usize) -> Vec<u8> {
    let mut b = Vec::with_capacity(payload.len() + 24);
    b.extend_from_slice(&h.addr);
    b.push(b',');
    push_num(&mut b, h.n, num_width);
    b.push(b',');
    push_num(&mut b, h.k, num_width);
    b.push(b',');
    if let Some(id) = h.id {
        push_num(&mut b, id, num_width);
    }
    b.push(b',');
    b.extend_from_slice(&h.chan);
    b.push(b',');
    b.extend_from_slice(payload);
    b.push(b',');
    push_num(&mut b, h.fill, num_width);
    b
}

pub fn wrap_body(body: &[u8], st: &Style, checksum: Option<u32>) -> Vec<u8> {
    let mut l = Vec::with_capacity(body.len() + 16);
    if let Some(t) = &st.tag_block {
        l.push(b'\\');
        l.extend_from_slice(t);
        l.push(b'\\');
    }
    l.push(st.delim);
    l.extend_from_slice(body);
    l.push(b'*');
    let cs = checksum.unwrap_or(xor(body) as u32);
    // a one-digit rendering can only carry values < 16
    let digits = if cs > 0xf && st.cs_digits < 2 { 2 } else { st.cs_digits };
    l.extend_from_slice(&render_checksum(cs, digits, st.cs_upper));
    l.extend_from_slice(&st.tail);
    l
}

pub fn encode_line(h: &Hdr, payload: &[u8], st: &Style) -> Vec<u8> {
    wrap_body(&encode_body(h, payload, st.num_width), st, None)
}

// ---------------------------------------------------------------------------------------
// lexer following the words of C02 / C08: where the body is, what value follows '*'
// ---------------------------------------------------------------------------------------

#[derive(Clone, Debug)]
pub struct Lex {
    /// index of the start delimiter
    pub delim: usize,
    /// index of the first '*' after the delimiter
    pub star: usize,
    /// value of the first (at most eight) hex digits after '*', if there is at least one
    pub value: Option<u32>,
    /// length of the hex-digit run after '*'
    pub digits: usize,
    /// comma-separated fields of the body (ranges into the line)
    pub fields: Vec<Range<usize>>,
}

impl Lex {
    pub fn body<'a>(&self, line: &'a [u8]) -> &'a [u8] {
        &line[self.delim + 1..self.star]
    }
    pub fn field<'a>(&self, line: &'a [u8], i: usize) -> Option<&'a [u8]> {
        self.fields.get(i).map(|r| &line[r.clone()])
    }
}

pub fn lex(line: &[u8]) -> Option<Lex> {
    let mut i = 0;
    if line.first() == Some(&b'\\') {
        let close = line[1..].iter().position(|&b| b == b'\\')?;
        i = close + 2;
    }
    match line.get(i) {
        Some(b'!') | Some(b'$') => {}
        _ => return None,
    }
    let delim = i;
    let star = delim + 1 + line[delim + 1..].iter().position(|&b| b == b'*')?;
    let mut digits = 0;
    let mut value: u32 = 0;
    for &b in &line[star + 1..] {
        let d = match b {
            b'0'..=b'9' => b - b'0',
            b'a'..=b'f' => b - b'a' + 10,
            b'A'..=b'F' => b - b'A' + 10,
            _ => break,
        };
        if digits < 8 {
            value = (value << 4) | d as u32;
        }
        digits += 1;
    }
    let mut fields = Vec::new();
    let mut start = delim + 1;
    // the address is five bytes wide whatever they are (the grammar takes 2 + 3 bytes), and
    // must be followed by a comma; the other fields are comma-separated
    let mut from = delim + 1;
    if star >= delim + 7 && line[delim + 6] == b',' {
        fields.push(delim + 1..delim + 6);
        start = delim + 7;
        from = delim + 7;
    }
    for j in from..star {
        if line[j] == b',' {
            fields.push(start..j);
            start = j + 1;
        }
    }
    fields.push(start..star);
    Some(Lex {
        delim,
        star,
        value: if digits > 0 { Some(value) } else { None },
        digits,
        fields,
    })
}

// ---------------------------------------------------------------------------------------
// stations
// ---------------------------------------------------------------------------------------

pub const TALKERS: &[&[u8; 2]] = &[
    b"AB", b"AD", b"AI", b"AN", b"AR", b"AS", b"AT", b"AX", b"BS", b"SA",
];

#[derive(Clone, Debug)]
pub enum IdPolicy {
    Absent,
    Cycle10,
    SmallPool,
    Wide,
    Fixed(u8),
    /// boundary values, present and absent mixed: None, 0, 9, 10, 25, 100, 255
    Edge,
}

#[derive(Clone, Debug)]
pub struct Station {
    pub addr: [u8; 5],
    pub id_policy: IdPolicy,
    pub next_id: u8,
    pub chan: Vec<u8>,
    pub style: Style,
    pub style_per_line: bool,
    /// the fragments of one group differ in talker, sentence type and channel (nothing in the
    /// properties ties a group to one channel or talker: only the sequence id and the order)
    pub mixed_hdr: bool,
}

/// one line as a station put it on the wire, with what went into it
#[derive(Clone, Debug)]
pub struct Emitted {
    pub bytes: Vec<u8>,
    pub hdr: Hdr,
    pub piece: Vec<u8>,
    pub station: usize,
    /// index of the group this line belongs to (per run)
    pub group: usize,
}

impl Station {
    pub fn random(rng: &mut Rng, pool_ids: bool) -> Self {
        let mut addr = [0u8; 5];
        if rng.ratio(5, 6) {
            addr[..2].copy_from_slice(&rng.pick(TALKERS)[..]);
        } else {
            addr[0] = addr_byte(rng);
            addr[1] = addr_byte(rng);
        }
        match rng.below(8) {
            0 => addr[2..].copy_from_slice(b"VDO"),
            1 => {
                for b in addr[2..].iter_mut() {
                    *b = addr_byte(rng);
                }
            }
            _ => addr[2..].copy_from_slice(b"VDM"),
        }
        let id_policy = if pool_ids {
            match rng.below(5) {
                0 => IdPolicy::Absent,
                1 => IdPolicy::Fixed(rng.below(3) as u8),
                2 => IdPolicy::Edge,
                _ => IdPolicy::SmallPool,
            }
        } else {
            match rng.below(7) {
                0 => IdPolicy::Absent,
                1 | 2 => IdPolicy::Cycle10,
                3 => IdPolicy::SmallPool,
                4 => IdPolicy::Wide,
                5 => IdPolicy::Edge,
                _ => IdPolicy::Fixed(rng.below(10) as u8),
            }
        };
        let chan: Vec<u8> = match rng.below(10) {
            0 => vec![],
            1 => b"1".to_vec(),
            2 => b"2".to_vec(),
            3 => b"AB".to_vec(),
            4 => vec![chan_byte(rng)],
            5 | 6 | 7 => b"B".to_vec(),
            _ => b"A".to_vec(),
        };
        Station {
            addr,
            id_policy,
            next_id: rng.below(10) as u8,
            chan,
            style: if rng.ratio(1, 2) { Style::plain() } else { Style::random(rng) },
            style_per_line: rng.ratio(1, 6),
            mixed_hdr: rng.ratio(1, 8),
        }
    }

    pub fn take_id(&mut self, rng: &mut Rng) -> Option<u8> {
        match self.id_policy {
            IdPolicy::Absent => None,
            IdPolicy::Cycle10 => {
                let id = self.next_id % 10;
                self.next_id = (self.next_id + 1) % 10;
                Some(id)
            }
            IdPolicy::SmallPool => Some(rng.below(3) as u8),
            IdPolicy::Wide => Some(rng.byte()),
            IdPolicy::Fixed(v) => Some(v),
            IdPolicy::Edge => *rng.pick(&[None, Some(0), Some(9), Some(10), Some(25), Some(100), Some(255), Some(255), None]),
        }
    }

    /// the lines of one message: `n` fragments (n == 1: an unfragmented sentence)
    pub fn emit(
        &mut self,
        rng: &mut Rng,
        station: usize,
        group: usize,
        p: &Payload,
        n: usize,
    ) -> Vec<Emitted> {
        let n = n.min(p.chars.len()).max(1);
        let pieces = split_payload(rng, &p.chars, n);
        let id = if n == 1 && rng.ratio(5, 6) { None } else { self.take_id(rng) };
        let mut out = Vec::with_capacity(n);
        for (i, piece) in pieces.into_iter().enumerate() {
            let last = i + 1 == n;
            let fill = if last {
                p.fill
            } else if rng.ratio(1, 10) {
                rng.below(6) as u8
            } else {
                0
            };
            let mut hdr = Hdr {
                addr: self.addr,
                n: n as u8,
                k: (i + 1) as u8,
                id,
                chan: self.chan.clone(),
                fill,
            };
            if self.mixed_hdr && n > 1 && i > 0 {
                if rng.ratio(1, 2) {
                    hdr.chan = match rng.below(5) {
                        0 => vec![],
                        1 => b"1".to_vec(),
                        2 => b"A".to_vec(),
                        3 => b"B".to_vec(),
                        _ => vec![chan_byte(rng)],
                    };
                }
                if rng.ratio(1, 2) {
                    hdr.addr[..2].copy_from_slice(&rng.pick(TALKERS)[..]);
                }
                if rng.ratio(1, 4) {
                    hdr.addr[2..].copy_from_slice(if rng.ratio(1, 2) { b"VDO" } else { b"VDM" });
                }
            }
            let st = if self.style_per_line { Style::random(rng) } else { self.style.clone() };
            let bytes = encode_line(&hdr, &piece, &st);
            out.push(Emitted {
                bytes,
                hdr,
                piece,
                station,
                group,
            });
        }
        out
    }
}

/// a byte allowed in the address field by the sentence grammar and harmless to the
/// checksum framing (no ',' and no '*')
pub fn addr_byte(rng: &mut Rng) -> u8 {
    loop {
        let b = if rng.ratio(3, 4) { rng.range(0x21, 0x7e) as u8 } else { rng.byte() };
        if b != b',' && b != b'*' && b != b'\n' {
            return b;
        }
    }
}

pub fn chan_byte(rng: &mut Rng) -> u8 {
    addr_byte(rng)
}

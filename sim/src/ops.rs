//! Operations, delivered schedules (scenarios), violations, and their replay-file form.

use crate::json::{self, hex, unhex, J};

#[derive(Clone, Copy, Debug, PartialEq, Eq, PartialOrd, Ord, Hash)]
pub enum Fault {
    Drop,
    Dup,
    DupLate,
    Swap,
    Hold,
    ReplayStale,
    FlipBit,
    ReplaceByte,
    InsertByte,
    DeleteByte,
    Truncate,
    GarbageTail,
    Merge,
    Split,
    Noise,
    BadChecksum,
    ChecksumRendering,
    FormPreservingByte,
    FormPreservingDigit,
    RewriteHeader,
    Restart,
    // CLI stream surface
    ShortRead,
    Eintr,
    EofMidLine,
    CrLf,
    EmptyLine,
}

pub const ALL_FAULTS: &[Fault] = &[
    Fault::Drop,
    Fault::Dup,
    Fault::DupLate,
    Fault::Swap,
    Fault::Hold,
    Fault::ReplayStale,
    Fault::FlipBit,
    Fault::ReplaceByte,
    Fault::InsertByte,
    Fault::DeleteByte,
    Fault::Truncate,
    Fault::GarbageTail,
    Fault::Merge,
    Fault::Split,
    Fault::Noise,
    Fault::BadChecksum,
    Fault::ChecksumRendering,
    Fault::FormPreservingByte,
    Fault::FormPreservingDigit,
    Fault::RewriteHeader,
    Fault::Restart,
    Fault::ShortRead,
    Fault::Eintr,
    Fault::EofMidLine,
    Fault::CrLf,
    Fault::EmptyLine,
];

impl Fault {
    pub fn name(self) -> &'static str {
        match self {
            Fault::Drop => "drop",
            Fault::Dup => "dup",
            Fault::DupLate => "dup-late",
            Fault::Swap => "reorder-swap",
            Fault::Hold => "delay-hold",
            Fault::ReplayStale => "replay-stale",
            Fault::FlipBit => "flip-bit",
            Fault::ReplaceByte => "replace-byte",
            Fault::InsertByte => "insert-byte",
            Fault::DeleteByte => "delete-byte",
            Fault::Truncate => "truncate",
            Fault::GarbageTail => "garbage-tail",
            Fault::Merge => "merge-lines",
            Fault::Split => "split-line",
            Fault::Noise => "noise-line",
            Fault::BadChecksum => "corrupt-checksum-field",
            Fault::ChecksumRendering => "odd-checksum-rendering",
            Fault::FormPreservingByte => "form-preserving-byte",
            Fault::FormPreservingDigit => "form-preserving-digit",
            Fault::RewriteHeader => "rewrite-header",
            Fault::Restart => "restart-node",
            Fault::ShortRead => "short-read",
            Fault::Eintr => "eintr",
            Fault::EofMidLine => "eof-mid-line",
            Fault::CrLf => "crlf",
            Fault::EmptyLine => "empty-line",
        }
    }
    pub fn from_name(s: &str) -> Option<Fault> {
        ALL_FAULTS.iter().copied().find(|f| f.name() == s)
    }
    pub fn index(self) -> usize {
        ALL_FAULTS.iter().position(|&f| f == self).unwrap()
    }
}

/// what a line is in the scenario (set by the generator; oracles of C05/C17 read it)
#[derive(Clone, Debug, PartialEq, Eq)]
pub enum Role {
    /// ordinary traffic
    Traffic,
    /// fragment `idx` (0-based) of the in-order group of the heal phase (C05)
    Heal { idx: usize },
    /// traffic inserted between the fragments of the heal group that must not disturb it (C05)
    Benign,
    /// the inserted line X of the metamorphic pair (C17)
    Extra,
}

#[derive(Clone, Debug, PartialEq, Eq)]
pub struct LineOp {
    pub node: usize,
    pub bytes: Vec<u8>,
    pub decode: bool,
    /// which of the two `From<AisFragments>` conversions is applied to the result
    pub conv_result: bool,
    /// faults that produced this delivery (annotation; oracles do not read it)
    pub faults: Vec<Fault>,
    /// ground truth from the generator: the line was encoded by a station as a well-formed
    /// sentence and every fault applied since preserves the form (C02 clause 3)
    pub form_ok: bool,
    pub role: Role,
    /// what the station put in the line, for heal fragments: (n, k, id, chan, fill, piece)
    pub sent: Option<SentHdr>,
    /// the line as it was before faults, if it differs (minimiser: "undo the fault")
    pub orig: Option<Vec<u8>>,
}

#[derive(Clone, Debug, PartialEq, Eq)]
pub struct SentHdr {
    pub addr: Vec<u8>,
    pub n: u8,
    pub k: u8,
    pub id: Option<u8>,
    pub chan: Vec<u8>,
    pub fill: u8,
    pub piece: Vec<u8>,
}

impl LineOp {
    pub fn plain(node: usize, bytes: Vec<u8>, decode: bool) -> Self {
        LineOp {
            node,
            bytes,
            decode,
            conv_result: false,
            faults: vec![],
            form_ok: false,
            role: Role::Traffic,
            sent: None,
            orig: None,
        }
    }
}

#[derive(Clone, Debug, PartialEq, Eq)]
pub enum Op {
    Line(LineOp),
    Restart { node: usize },
    /// direct API: `unarmor(bytes, fill)` and, if it succeeds, `messages::parse` of the result
    Unarmor { bytes: Vec<u8>, fill: u8 },
    /// direct API: `messages::parse(bytes)` on raw bytes
    Decode { bytes: Vec<u8> },
}

/// CLI scenario: a byte stream and an I/O schedule
#[derive(Clone, Debug, PartialEq, Eq)]
pub struct StreamSpec {
    pub data: Vec<u8>,
    /// chunk sizes; 0 = EINTR
    pub steps: Vec<usize>,
    pub faults: Vec<Fault>,
}

#[derive(Clone, Debug, PartialEq, Eq)]
pub struct Scenario {
    pub prop: String,
    pub seed: u64,
    pub run: u64,
    pub nodes: usize,
    pub ops: Vec<Op>,
    pub stream: Option<StreamSpec>,
    /// free-form description of the swarm configuration that produced it
    pub config: String,
    /// faults that leave no delivered operation behind (drops); counted, never replayed
    pub hidden_faults: Vec<Fault>,
}

#[derive(Clone, Debug, PartialEq, Eq)]
pub struct Violation {
    pub prop: String,
    /// the oracle clause that fired (stable identifier; minimisation keeps it fixed)
    pub clause: String,
    /// index of the operation at which it fired
    pub at: usize,
    /// build it fired in, if specific
    pub build: String,
    pub detail: String,
    /// fingerprint used to match known findings: a normalised form of the failing site
    pub site: String,
}

// ---------------------------------------------------------------------------------------
// JSON
// ---------------------------------------------------------------------------------------

fn opt_u8(v: Option<u8>) -> J {
    match v {
        Some(x) => J::Int(x as i64),
        None => J::Null,
    }
}

impl Op {
    pub fn to_json(&self) -> J {
        match self {
            Op::Line(l) => {
                let mut o = J::obj()
                    .set("op", J::str("line"))
                    .set("node", J::Int(l.node as i64))
                    .set("text", J::Str(json::show(&l.bytes)))
                    .set("hex", J::Str(hex(&l.bytes)))
                    .set("decode", J::Bool(l.decode))
                    .set("conv_result", J::Bool(l.conv_result))
                    .set(
                        "faults",
                        J::Arr(l.faults.iter().map(|f| J::str(f.name())).collect()),
                    )
                    .set("form_ok", J::Bool(l.form_ok))
                    .set(
                        "role",
                        match &l.role {
                            Role::Traffic => J::str("traffic"),
                            Role::Heal { idx } => J::Str(format!("heal:{}", idx)),
                            Role::Benign => J::str("benign"),
                            Role::Extra => J::str("extra"),
                        },
                    );
                if let Some(s) = &l.sent {
                    o.put(
                        "sent",
                        J::obj()
                            .set("addr", J::Str(hex(&s.addr)))
                            .set("n", J::Int(s.n as i64))
                            .set("k", J::Int(s.k as i64))
                            .set("id", opt_u8(s.id))
                            .set("chan", J::Str(hex(&s.chan)))
                            .set("fill", J::Int(s.fill as i64))
                            .set("piece", J::Str(hex(&s.piece))),
                    );
                }
                if let Some(orig) = &l.orig {
                    o.put("orig_hex", J::Str(hex(orig)));
                }
                o
            }
            Op::Restart { node } => J::obj()
                .set("op", J::str("restart"))
                .set("node", J::Int(*node as i64)),
            Op::Unarmor { bytes, fill } => J::obj()
                .set("op", J::str("unarmor"))
                .set("text", J::Str(json::show(bytes)))
                .set("hex", J::Str(hex(bytes)))
                .set("fill", J::Int(*fill as i64)),
            Op::Decode { bytes } => J::obj()
                .set("op", J::str("decode"))
                .set("hex", J::Str(hex(bytes))),
        }
    }

    pub fn from_json(j: &J) -> Result<Op, String> {
        let kind = j.get("op").and_then(|v| v.as_str()).ok_or("op missing")?;
        let bytes = |key: &str| -> Result<Vec<u8>, String> {
            unhex(j.get(key).and_then(|v| v.as_str()).ok_or(format!("{} missing", key))?)
        };
        match kind {
            "line" => {
                let role = match j.get("role").and_then(|v| v.as_str()).unwrap_or("traffic") {
                    "traffic" => Role::Traffic,
                    "benign" => Role::Benign,
                    "extra" => Role::Extra,
                    s if s.starts_with("heal:") => Role::Heal {
                        idx: s[5..].parse().map_err(|_| "bad heal idx")?,
                    },
                    other => return Err(format!("bad role {}", other)),
                };
                let sent = match j.get("sent") {
                    Some(s @ J::Obj(_)) => {
                        let sb = |key: &str| -> Result<Vec<u8>, String> {
                            unhex(s.get(key).and_then(|v| v.as_str()).ok_or(format!("sent.{} missing", key))?)
                        };
                        Some(SentHdr {
                            addr: sb("addr")?,
                            n: s.get("n").and_then(|v| v.as_i64()).ok_or("sent.n")? as u8,
                            k: s.get("k").and_then(|v| v.as_i64()).ok_or("sent.k")? as u8,
                            id: s.get("id").and_then(|v| v.as_i64()).map(|v| v as u8),
                            chan: sb("chan")?,
                            fill: s.get("fill").and_then(|v| v.as_i64()).ok_or("sent.fill")? as u8,
                            piece: sb("piece")?,
                        })
                    }
                    _ => None,
                };
                Ok(Op::Line(LineOp {
                    node: j.get("node").and_then(|v| v.as_i64()).unwrap_or(0) as usize,
                    bytes: bytes("hex")?,
                    decode: j.get("decode").and_then(|v| v.as_bool()).unwrap_or(true),
                    conv_result: j.get("conv_result").and_then(|v| v.as_bool()).unwrap_or(false),
                    faults: j
                        .get("faults")
                        .and_then(|v| v.as_arr())
                        .map(|a| {
                            a.iter()
                                .filter_map(|f| f.as_str().and_then(Fault::from_name))
                                .collect()
                        })
                        .unwrap_or_default(),
                    form_ok: j.get("form_ok").and_then(|v| v.as_bool()).unwrap_or(false),
                    role,
                    sent,
                    orig: match j.get("orig_hex").and_then(|v| v.as_str()) {
                        Some(h) => Some(unhex(h)?),
                        None => None,
                    },
                }))
            }
            "restart" => Ok(Op::Restart {
                node: j.get("node").and_then(|v| v.as_i64()).unwrap_or(0) as usize,
            }),
            "unarmor" => Ok(Op::Unarmor {
                bytes: bytes("hex")?,
                fill: j.get("fill").and_then(|v| v.as_i64()).unwrap_or(0) as u8,
            }),
            "decode" => Ok(Op::Decode { bytes: bytes("hex")? }),
            other => Err(format!("unknown op {}", other)),
        }
    }
}

impl Scenario {
    pub fn to_json(&self) -> J {
        let mut o = J::obj()
            .set("property", J::Str(self.prop.clone()))
            .set("seed", J::Str(self.seed.to_string()))
            .set("run", J::Int(self.run as i64))
            .set("nodes", J::Int(self.nodes as i64))
            .set("config", J::Str(self.config.clone()))
            .set("ops", J::Arr(self.ops.iter().map(|o| o.to_json()).collect()));
        if let Some(s) = &self.stream {
            o.put(
                "stream",
                J::obj()
                    .set("text", J::Str(json::show(&s.data)))
                    .set("hex", J::Str(hex(&s.data)))
                    .set("steps", J::Arr(s.steps.iter().map(|&x| J::Int(x as i64)).collect()))
                    .set(
                        "faults",
                        J::Arr(s.faults.iter().map(|f| J::str(f.name())).collect()),
                    ),
            );
        }
        o
    }

    pub fn from_json(j: &J) -> Result<Scenario, String> {
        let ops = j
            .get("ops")
            .and_then(|v| v.as_arr())
            .ok_or("ops missing")?
            .iter()
            .map(Op::from_json)
            .collect::<Result<Vec<_>, _>>()?;
        let stream = match j.get("stream") {
            Some(s @ J::Obj(_)) => Some(StreamSpec {
                data: unhex(s.get("hex").and_then(|v| v.as_str()).ok_or("stream.hex")?)?,
                steps: s
                    .get("steps")
                    .and_then(|v| v.as_arr())
                    .map(|a| a.iter().filter_map(|x| x.as_i64()).map(|x| x as usize).collect())
                    .unwrap_or_default(),
                faults: s
                    .get("faults")
                    .and_then(|v| v.as_arr())
                    .map(|a| {
                        a.iter()
                            .filter_map(|f| f.as_str().and_then(Fault::from_name))
                            .collect()
                    })
                    .unwrap_or_default(),
            }),
            _ => None,
        };
        Ok(Scenario {
            prop: j
                .get("property")
                .and_then(|v| v.as_str())
                .ok_or("property missing")?
                .to_string(),
            seed: j
                .get("seed")
                .and_then(|v| v.as_str())
                .and_then(|s| s.parse().ok())
                .unwrap_or(0),
            run: j.get("run").and_then(|v| v.as_u64()).unwrap_or(0),
            nodes: j.get("nodes").and_then(|v| v.as_u64()).unwrap_or(1) as usize,
            ops,
            stream,
            config: j
                .get("config")
                .and_then(|v| v.as_str())
                .unwrap_or("")
                .to_string(),
            hidden_faults: vec![],
        })
    }
}

impl Violation {
    pub fn to_json(&self) -> J {
        J::obj()
            .set("property", J::Str(self.prop.clone()))
            .set("clause", J::Str(self.clause.clone()))
            .set("at_op", J::Int(self.at as i64))
            .set("build", J::Str(self.build.clone()))
            .set("detail", J::Str(self.detail.clone()))
            .set("site", J::Str(self.site.clone()))
    }
}

//! Batch runner: seeded search over schedules on all cores, minimisation, replay files,
//! known-findings handling and the evidence file.

use crate::json::{self, J};
use crate::link::NF;
use crate::nodes;
use crate::ops::*;
use crate::props::{self, Prop};
use crate::rng::run_seed;
use crate::stats::*;
use crate::watchdog;
use std::collections::BTreeMap;
use std::sync::atomic::{AtomicBool, AtomicU64, Ordering};
use std::sync::{Arc, Mutex};
use std::time::Instant;

pub const DEFAULT_SEED: u64 = 20261002;

#[derive(Clone, Debug)]
pub struct Args {
    pub prop: String,
    pub tier: String,
    pub seed: u64,
    pub runs: Option<u64>,
    pub threads: usize,
    pub replay: Option<String>,
    pub run_index: Option<u64>,
    /// index of the first run of the batch (sub-ranges are used by abort containment)
    pub first_run: u64,
    /// skip the per-property extras and the determinism self-check (containment sub-runs)
    pub no_extras: bool,
    pub write_evidence: bool,
    pub log_hashes: bool,
    pub max_seconds: Option<u64>,
    pub quiet: bool,
}

pub fn verif_dir() -> String {
    std::env::var("VERIF_DIR").unwrap_or_else(|_| "/verif".into())
}

/// runs per (property, tier): fixed counts, so that the explored set is a function of the
/// seed alone and not of the machine's speed
pub fn default_runs(prop: &str, tier: &str) -> u64 {
    let quick = match prop {
        "C01" => 400_000,
        "C02" => 800_000,
        "C05" => 600_000,
        "C06" => 1_000_000,
        "C17" => 500_000,
        "C18" => 600_000,
        "C20" => 300_000,
        _ => 50_000,
    };
    if tier == "thorough" {
        quick * 40
    } else {
        quick
    }
}

#[derive(Clone, Debug)]
pub struct Found {
    pub run: u64,
    pub scenario: Scenario,
    pub violation: Violation,
}

pub struct BatchResult {
    pub stats: Stats,
    /// per distinct (clause, site): the violating run with the lowest index
    pub found: BTreeMap<(String, String), Found>,
    pub counts: BTreeMap<(String, String), u64>,
    pub wall_s: f64,
    pub runs_done: u64,
    pub hang: Option<(u64, usize)>,
}

pub fn run_batch(prop: &dyn Prop, args: &Args, runs: u64) -> BatchResult {
    let t0 = Instant::now();
    let next = AtomicU64::new(0);
    let stop = AtomicBool::new(false);
    let merged: Mutex<(Stats, BTreeMap<(String, String), Found>, BTreeMap<(String, String), u64>)> =
        Mutex::new((Stats::default(), BTreeMap::new(), BTreeMap::new()));
    let slots: Arc<Mutex<Vec<&'static watchdog::Slot>>> = Arc::new(Mutex::new(Vec::new()));
    let done_workers = AtomicU64::new(0);
    let hang: Mutex<Option<(u64, usize)>> = Mutex::new(None);
    const CHUNK: u64 = 64;
    let threads = args.threads.max(1);
    struct DoneGuard<'a>(&'a AtomicU64);
    impl Drop for DoneGuard<'_> {
        fn drop(&mut self) {
            self.0.fetch_add(1, Ordering::Release);
        }
    }
    let scope_result = std::panic::catch_unwind(std::panic::AssertUnwindSafe(|| std::thread::scope(|scope| {
        for _ in 0..threads {
            scope.spawn(|| {
                let _done = DoneGuard(&done_workers);
                let slot = watchdog::register();
                slots.lock().unwrap().push(slot);
                let mut st = Stats::default();
                st.keep_log_hashes = args.log_hashes;
                let mut found: BTreeMap<(String, String), Found> = BTreeMap::new();
                let mut counts: BTreeMap<(String, String), u64> = BTreeMap::new();
                loop {
                    if stop.load(Ordering::Relaxed) {
                        break;
                    }
                    let start = next.fetch_add(CHUNK, Ordering::Relaxed);
                    if start >= runs {
                        break;
                    }
                    for run in (args.first_run + start)..(args.first_run + (start + CHUNK).min(runs)) {
                        let seed = run_seed(args.seed, run);
                        let sc = prop.generate(seed, run);
                        watchdog::set_run(run);
                        if args.log_hashes {
                            nodes::evlog_start();
                        }
                        st.runs += 1;
                        st.ops += sc.ops.len() as u64;
                        st.count_faults(&sc);
                        // C01 publishes every single operation to the watchdog; for the other
                        // checks the whole run is watched, so that code that stops terminating
                        // is reported as a hang instead of hanging the check
                        let whole_run = prop.id() != "C01";
                        if whole_run {
                            watchdog::enter(usize::MAX);
                        }
                        let v = prop.judge(&sc, Some(&mut st));
                        if whole_run {
                            watchdog::leave();
                        }
                        if args.log_hashes {
                            let mut h = crate::rng::Fnv::default();
                            h.write_str(&sc.to_json().to_string_compact());
                            h.write_u64(nodes::evlog_take());
                            h.write_str(&format!("{:?}", v));
                            st.log_hashes.push((run, h.0));
                        }
                        if st.samples.len() < 3 && run % 1013 == 7 {
                            st.samples.push(props::sample_of(&sc, 6));
                        }
                        if let Some(v) = v {
                            let key = (v.clause.clone(), v.site.clone());
                            *counts.entry(key.clone()).or_insert(0) += 1;
                            let better = match found.get(&key) {
                                Some(f) => run < f.run,
                                None => true,
                            };
                            if better {
                                found.insert(
                                    key,
                                    Found {
                                        run,
                                        scenario: sc,
                                        violation: v,
                                    },
                                );
                            }
                        }
                    }
                    if let Some(max) = args.max_seconds {
                        if t0.elapsed().as_secs() >= max {
                            stop.store(true, Ordering::Relaxed);
                        }
                    }
                }
                watchdog::leave();
                let mut m = merged.lock().unwrap();
                m.0.merge(st);
                for (k, f) in found {
                    let better = match m.1.get(&k) {
                        Some(g) => f.run < g.run,
                        None => true,
                    };
                    if better {
                        m.1.insert(k, f);
                    }
                }
                for (k, c) in counts {
                    *m.2.entry(k).or_insert(0) += c;
                }
            });
        }
        // monitor: hang detection only. Not under Miri: with isolation off its sleeps follow the
        // host clock, and when it wakes would perturb Miri's otherwise seed-determined schedule.
        if !cfg!(miri) {
        scope.spawn(|| {
            while done_workers.load(Ordering::Acquire) < threads as u64 {
                std::thread::sleep(std::time::Duration::from_millis(200));
                if let Some(h) = watchdog::stuck(&slots) {
                    *hang.lock().unwrap() = Some(h);
                    // a stuck worker cannot be cancelled; report and leave the process
                    report_hang(prop, args, h);
                }
            }
        });
        }
    })));
    if scope_result.is_err() {
        eprintln!("check: HARNESS ERROR: a simulator worker panicked outside the code under test (see above)");
        std::process::exit(2);
    }
    let (stats, found, counts) = merged.into_inner().unwrap();
    let runs_done = stats.runs;
    BatchResult {
        stats,
        found,
        counts,
        wall_s: t0.elapsed().as_secs_f64(),
        runs_done,
        hang: hang.into_inner().unwrap(),
    }
}

fn report_hang(prop: &dyn Prop, args: &Args, (run, op_index): (u64, usize)) -> ! {
    let seed = run_seed(args.seed, run);
    let mut sc = prop.generate(seed, run);
    sc.ops.truncate(op_index.saturating_add(1));
    let v = Violation {
        prop: prop.id().into(),
        clause: "hang".into(),
        at: if op_index == usize::MAX { 0 } else { op_index },
        build: "?".into(),
        detail: if op_index == usize::MAX {
            format!("run {} did not finish within {} s", run, watchdog::LIMIT_S * 6)
        } else {
            format!("operation {} of run {} did not return within {} s", op_index, run, watchdog::LIMIT_S)
        },
        site: "hang".into(),
    };
    // (the replay file is written without re-executing the schedule: it would hang again)
    NO_ANSWERS.store(true, Ordering::Relaxed);
    let path = write_replay(args, &sc, &v, sc.ops.len(), false);
    println!("VIOLATION property={} replay={}", prop.id(), path);
    println!("  clause=hang {}", v.detail);
    std::process::exit(1);
}

// ---------------------------------------------------------------------------------------
// minimisation
// ---------------------------------------------------------------------------------------

fn same(v: &Option<Violation>, want: &Violation) -> bool {
    matches!(v, Some(x) if x.clause == want.clause && x.site == want.site)
}

pub fn minimise(prop: &dyn Prop, sc: &Scenario, want: &Violation) -> (Scenario, Violation) {
    // a verdict that depends on the kernel's thread scheduling (C17, concurrent shape) is
    // re-judged with many rounds per candidate: a small budget, the schedule matters little there
    let budget = if want.site == "concurrent-threads" { 250 } else { 6000 };
    minimise_with(prop, sc, want, budget, &|c: &Scenario| prop.judge(c, None))
}

/// judges a scenario in a fresh process (state left behind in statics by earlier runs of
/// this process cannot influence it)
pub fn judge_fresh(prop: &dyn Prop, sc: &Scenario) -> Option<Violation> {
    let exe = std::env::current_exe().ok()?;
    let tmp = format!(
        "{}/fresh-{}-{:?}.json",
        std::env::var("AISSIM_WORK").unwrap_or_else(|_| "/tmp".into()),
        std::process::id(),
        std::thread::current().id()
    )
    .replace(['(', ')'], "");
    std::fs::write(&tmp, J::obj().set("scenario", sc.to_json()).to_string_compact()).ok()?;
    let out = std::process::Command::new(exe)
        .args(["check", prop.id(), "--replay", &tmp])
        .env("AISSIM_CHILD", "1")
        .output()
        .ok();
    let _ = std::fs::remove_file(&tmp);
    let out = out?;
    if out.status.code() != Some(1) {
        return None;
    }
    let text = String::from_utf8_lossy(&out.stdout).to_string();
    let line = text.lines().find(|l| l.trim_start().starts_with("clause="))?;
    let field = |key: &str, next: &str| -> Option<String> {
        let a = line.find(key)? + key.len();
        let b = line[a..].find(next).map(|i| a + i).unwrap_or(line.len());
        Some(line[a..b].to_string())
    };
    let detail = text.lines().skip_while(|l| !l.trim_start().starts_with("clause=")).nth(1).unwrap_or("").trim().to_string();
    Some(Violation {
        prop: prop.id().into(),
        clause: field("clause=", " site=")?,
        site: field(" site=", " build=")?,
        build: field(" build=", " at_op=").unwrap_or_default(),
        at: field(" at_op=", "\n").and_then(|s| s.trim().parse().ok()).unwrap_or(0),
        detail,
    })
}

pub fn minimise_with(
    prop: &dyn Prop,
    sc: &Scenario,
    want: &Violation,
    budget: i64,
    judge: &dyn Fn(&Scenario) -> Option<Violation>,
) -> (Scenario, Violation) {
    let mut cur = sc.clone();
    let mut cur_v = want.clone();
    // (under Miri every judgement costs seconds: report the find almost as it is)
    let mut budget: i64 = if cfg!(miri) { budget.min(30) } else { budget };
    // wall-clock cap (very long schedules - C01's soak shapes - cost up to a second per
    // judgement): it bounds the effort of the minimiser, never a verdict
    let t_start = Instant::now();
    let try_candidate = |cand: &Scenario, budget: &mut i64| -> Option<Violation> {
        *budget -= 1;
        if t_start.elapsed().as_secs() > 120 {
            *budget = 0;
        }
        let v = judge(cand);
        if same(&v, want) {
            v
        } else {
            None
        }
    };
    // 1. cut everything after the operation at which the oracle fired
    if cur_v.at + 1 < cur.ops.len() {
        let mut c = cur.clone();
        c.ops.truncate(cur_v.at + 1);
        if let Some(v) = try_candidate(&c, &mut budget) {
            cur = c;
            cur_v = v;
        }
    }
    // 2. delta debugging over the operation list
    let mut chunk = (cur.ops.len() / 2).max(1);
    while chunk >= 1 && budget > 0 {
        let mut i = 0;
        let mut progress = false;
        while i < cur.ops.len() && budget > 0 {
            let end = (i + chunk).min(cur.ops.len());
            if (i..end).all(|j| prop.droppable(&cur, j)) {
                let mut c = cur.clone();
                c.ops.drain(i..end);
                if let Some(v) = try_candidate(&c, &mut budget) {
                    cur = c;
                    cur_v = v;
                    progress = true;
                    continue;
                }
            }
            i += chunk;
        }
        if chunk == 1 && !progress {
            break;
        }
        if !progress {
            chunk /= 2;
        }
    }
    // 3. per-operation simplification
    let mut changed = true;
    while changed && budget > 0 {
        changed = false;
        for i in 0..cur.ops.len() {
            for alt in prop.simplify(&cur, i) {
                if alt == cur.ops[i] {
                    continue;
                }
                let mut c = cur.clone();
                c.ops[i] = alt;
                if let Some(v) = try_candidate(&c, &mut budget) {
                    cur = c;
                    cur_v = v;
                    changed = true;
                    break;
                }
            }
        }
    }
    // 4. stream scenarios: simplify the I/O schedule
    if cur.stream.is_some() && budget > 0 {
        let (c, v) = crate::props::c20::minimise_stream(prop, &cur, &cur_v);
        cur = c;
        cur_v = v;
    }
    // 5. fewer nodes
    if cur.nodes > 1 {
        let used: usize = cur
            .ops
            .iter()
            .map(|o| match o {
                Op::Line(l) => l.node + 1,
                Op::Restart { node } => node + 1,
                _ => 1,
            })
            .max()
            .unwrap_or(1);
        if used < cur.nodes {
            let mut c = cur.clone();
            c.nodes = used;
            if let Some(v) = try_candidate(&c, &mut budget) {
                cur = c;
                cur_v = v;
            }
        }
    }
    (cur, cur_v)
}

// ---------------------------------------------------------------------------------------
// replay files
// ---------------------------------------------------------------------------------------

/// set by the supervisor: it must never execute the code under test itself
pub static NO_ANSWERS: AtomicBool = AtomicBool::new(false);

pub fn write_replay(args: &Args, sc: &Scenario, v: &Violation, original_ops: usize, minimised: bool) -> String {
    let dir = std::env::var("AISSIM_REPLAY_DIR").unwrap_or_else(|_| format!("{}/replays", verif_dir()));
    let _ = std::fs::create_dir_all(&dir);
    let mut h = crate::rng::Fnv::default();
    h.write_str(&v.clause);
    h.write_str(&v.site);
    let path = format!(
        "{}/{}-{}-{}-{:08x}.json",
        dir,
        v.prop,
        args.seed,
        sc.run,
        (h.0 & 0xffff_ffff) as u32
    );
    // what the real code answered, for the reader (std build; informational)
    let mut answers: Vec<J> = Vec::new();
    if sc.stream.is_none() && sc.ops.len() <= 2000 && !NO_ANSWERS.load(std::sync::atomic::Ordering::Relaxed) {
        props::run_lines(
            nodes::Build::Std,
            sc,
            |i, _l, out, node| {
                answers.push(J::Str(format!("op {}: {}   state: {}", i, out.brief(), node.state())));
                true
            },
            |_, _| {},
        );
    }
    let j = J::obj()
        .set("property", J::Str(v.prop.clone()))
        .set("violation", v.to_json())
        .set("base_seed", J::Str(args.seed.to_string()))
        .set("tier", J::Str(args.tier.clone()))
        .set("minimised", J::Bool(minimised))
        .set("original_ops", J::Int(original_ops as i64))
        .set(
            "replay_cmd",
            J::Str(format!("./check {} --replay {}", v.prop, path)),
        )
        .set("scenario", sc.to_json())
        .set("answers_std_build", J::Arr(answers));
    std::fs::write(&path, j.to_string_pretty()).expect("write replay file");
    path
}

pub fn load_replay(path: &str) -> Result<(Scenario, Option<(String, String)>), String> {
    let src = std::fs::read_to_string(path).map_err(|e| format!("{}: {}", path, e))?;
    let j = json::parse(&src)?;
    let sc = Scenario::from_json(j.get("scenario").ok_or("scenario missing")?)?;
    let want = j.get("violation").and_then(|v| {
        Some((
            v.get("clause")?.as_str()?.to_string(),
            v.get("site")?.as_str()?.to_string(),
        ))
    });
    Ok((sc, want))
}

// ---------------------------------------------------------------------------------------
// known findings
// ---------------------------------------------------------------------------------------

#[derive(Clone, Debug)]
pub struct Known {
    pub prop: String,
    pub clause: String,
    pub site: String,
    pub what: String,
}

/// `known_findings.json`: {"known":[{property,clause,site,what}], "fixed":[...]}.
/// Read only; never written at run time. `fixed` entries suppress nothing.
pub fn load_known(prop: &str) -> Vec<Known> {
    let path = format!("{}/known_findings.json", verif_dir());
    let src = match std::fs::read_to_string(&path) {
        Ok(s) => s,
        Err(_) => return vec![],
    };
    let j = match json::parse(&src) {
        Ok(j) => j,
        Err(e) => {
            eprintln!("check: HARNESS ERROR: {} does not parse: {}", path, e);
            std::process::exit(2);
        }
    };
    let mut out = Vec::new();
    if let Some(arr) = j.get("known").and_then(|v| v.as_arr()) {
        for k in arr {
            let g = |key: &str| k.get(key).and_then(|v| v.as_str()).unwrap_or("").to_string();
            if g("property") == prop {
                out.push(Known {
                    prop: g("property"),
                    clause: g("clause"),
                    site: g("site"),
                    what: g("what"),
                });
            }
        }
    }
    out
}

// ---------------------------------------------------------------------------------------
// evidence
// ---------------------------------------------------------------------------------------

pub struct EvidenceExtra {
    pub items: Vec<(String, J)>,
}

pub fn write_evidence(
    prop: &dyn Prop,
    args: &Args,
    res: &BatchResult,
    violations: usize,
    known_hits: &[(Known, u64)],
    extra: EvidenceExtra,
) {
    let st = &res.stats;
    let mut faults = J::obj();
    for f in ALL_FAULTS {
        faults.put(f.name(), J::Int(st.fired[f.index()] as i64));
    }
    let _ = NF;
    let mut probes = J::obj();
    for (k, v) in &st.probes {
        probes.put(k, J::Int(*v as i64));
    }
    for (k, v) in &st.dyn_probes {
        probes.put(k, J::Int(*v as i64));
    }
    let mut outcomes = J::obj();
    for (k, v) in &st.outcomes {
        outcomes.put(k, J::Int(*v as i64));
    }
    let zero_probes: Vec<J> = st
        .probes
        .iter()
        .filter(|(_, v)| **v == 0)
        .map(|(k, _)| J::str(k))
        .collect();
    let cells: Vec<J> = st
        .cells
        .iter()
        .map(|(s, i, o)| {
            J::Str(format!(
                "{} x {} -> {}",
                STATE_NAMES[*s as usize], INCOMING_NAMES[*i as usize], OUTCOME_NAMES[*o as usize]
            ))
        })
        .collect();
    let runs_per_hour = if res.wall_s > 0.0 {
        (res.runs_done as f64 / res.wall_s * 3600.0) as i64
    } else {
        0
    };
    let distinct = st.histories.len() as i64;
    let mut coverage = J::obj()
        .set("evaluations", J::Int(res.runs_done as i64))
        .set("distinct_nontrivial", J::Int(distinct.max(0)))
        .set(
            "rule",
            J::Str(format!(
                "one evaluation = one seeded simulated run (world + faulty link/I-O schedule + real nodes) of property {}; \
                 run i uses seed splitmix64(base ^ i*phi). distinct_nontrivial = number of distinct abstract histories: \
                 the hash of the per-node sequence of (incoming-line class relative to the reassembly state, outcome class) \
                 — for C20 the sequence of per-line outcome classes plus the I/O step classes; runs with an empty sequence are not counted",
                prop.id()
            )),
        )
        .set(
            "samples",
            J::Arr(st.samples.iter().map(|s| J::Str(s.clone())).collect()),
        )
        .set("runs", J::Int(res.runs_done as i64))
        .set("runs_per_hour", J::Int(runs_per_hour))
        .set("seeds", J::Str(format!("base {} ; run indices 0..{}", args.seed, res.runs_done)))
        .set("operations_executed", J::Int(st.ops as i64))
        .set("lines_parsed", J::Int(st.lines as i64))
        .set("lines_judged", J::Int(st.judged as i64))
        .set("direct_api_calls", J::Int(st.direct_api_calls as i64))
        .set("node_restarts", J::Int(st.restarts as i64))
        .set(
            "simulated_time",
            J::obj()
                .set("delivery_steps", J::Int(st.ops as i64))
                .set(
                    "note",
                    J::str("the code under test has no clock, timer or deadline; the simulator's discrete-event clock only orders deliveries (one step per delivered operation) and no component reads it"),
                ),
        )
        .set("faults_fired", faults)
        .set("outcomes", outcomes)
        .set("reach_probes", probes)
        .set("reach_probes_at_zero", J::Arr(zero_probes))
        .set("premise_failed", J::Int(st.premise_failed as i64))
        .set("unscoped", J::Int(st.unscoped as i64))
        .set(
            "abstract_reassembler_cells_hit",
            J::obj()
                .set("count", J::Int(st.cells.len() as i64))
                .set("cells", J::Arr(cells)),
        )
        .set("distinct_abstract_histories", J::Int(distinct))
        .set(
            "components",
            J::obj()
                .set("real", J::Arr(vec![
                    J::str("ais::AisParser::parse, ais::messages::unarmor, ais::messages::parse compiled from the repository's working tree in the std, alloc and no-alloc configurations (shadow manifests pointing at /repo/src/lib.rs)"),
                    J::str("nom 7.1.3, heapless 0.7.17 from the cargo cache"),
                    J::str("src/bin/aisparser.rs (C20): unmodified source included in-process behind the crate's own lib::std::io seam, and the real executable over OS pipes in the confirmation runs"),
                ]))
                .set("stub_or_model", J::Arr(vec![
                    J::str("transmitters / multiplexer / radio link (model: stations, scheduler, fault injector)"),
                    J::str("stdin/stdout/stderr of the in-process CLI runs (scripted reader, captured writers)"),
                    J::str("clock (none in the code; simulator step counter only)"),
                    J::str("caller threads of C17's concurrent shape: real OS threads scheduled by the kernel in the native runs (confirmation only); under Miri (miri_slice) one OS thread, every preemption decided by Miri's scheduler from -Zmiri-seed"),
                ])),
        )
        .set(
            "known_findings_hit",
            J::Arr(
                known_hits
                    .iter()
                    .map(|(k, c)| {
                        J::obj()
                            .set("clause", J::Str(k.clause.clone()))
                            .set("site", J::Str(k.site.clone()))
                            .set("runs", J::Int(*c as i64))
                    })
                    .collect(),
            ),
        );
    // set-valued probes
    let cs_values = st.marks.iter().filter(|(k, _)| *k == crate::props::c02::MARK_CS_VALUE).count();
    let pos: Vec<J> = st
        .marks
        .iter()
        .filter(|(k, _)| *k == crate::props::c02::MARK_CORRUPT_POS)
        .map(|(_, v)| J::str(crate::props::c02::POS_NAMES.get(*v as usize).copied().unwrap_or("?")))
        .collect();
    if cs_values > 0 || !pos.is_empty() {
        coverage.put(
            "set_valued_probes",
            J::obj()
                .set("distinct transmitted checksum values seen in checksum errors (of 256)", J::Int(cs_values as i64))
                .set("positions of the first corrupted byte, classes hit", J::Arr(pos)),
        );
    }
    if !st.interleavings.is_empty() {
        let mut d = crate::rng::Fnv::default();
        let mut v: Vec<u64> = st.interleavings.iter().copied().collect();
        v.sort_unstable();
        for x in &v {
            d.write_u64(*x);
        }
        coverage.put(
            "concurrent_shape_native",
            J::obj()
                .set("distinct_interleavings_observed", J::Int(v.len() as i64))
                .set("measure", J::str("per threaded round of the std build: the sequence of thread ids in the order in which the threads started their parse calls (line granularity; a relaxed ticket counter). Natively the kernel decides it; under Miri (miri_slice) it is a function of -Zmiri-seed"))
                .set("digest", J::Str(format!("{:016x}", d.0))),
        );
    }
    for (k, v) in extra.items {
        coverage.put(&k, v);
    }
    let ev = J::obj()
        .set("property_id", J::str(prop.id()))
        .set("tier", J::Str(args.tier.clone()))
        .set("seed", J::Int(args.seed as i64))
        .set("level", J::str("exploration"))
        .set("coverage", coverage)
        .set(
            "assumptions",
            J::Arr(vec![
                J::str("sampling, not enumeration: a clean batch is evidence, not proof"),
                J::str("the station/link model under-approximates real feeds; oracles judge delivered lines and returned values only, never the model"),
                J::str("three builds are linked into one binary, so cargo unifies nom's features (std+alloc on); C18's thorough tier cross-checks the no-alloc build in a binary of its own"),
                J::str("rustc 1.95 release codegen of the harness binary; the shipped profile has overflow checks off like a release build of the crate"),
            ]),
        )
        .set("wall_s", J::Num((res.wall_s * 1000.0).round() / 1000.0))
        .set("violations", J::Int(violations as i64));
    let path = format!("{}/evidence/{}.json", verif_dir(), prop.id());
    let _ = std::fs::create_dir_all(format!("{}/evidence", verif_dir()));
    std::fs::write(&path, ev.to_string_pretty()).expect("write evidence");
}

// ---------------------------------------------------------------------------------------
// the check command
// ---------------------------------------------------------------------------------------

pub fn cmd_check(args: &Args) -> i32 {
    let prop = match props::by_id(&args.prop) {
        Some(p) => p,
        None => {
            eprintln!("check: unknown property {}", args.prop);
            return 2;
        }
    };
    let prop: &dyn Prop = prop.as_ref();

    if let Some(path) = &args.replay {
        return cmd_replay(prop, args, path);
    }
    if let Some(run) = args.run_index {
        crate::props::c17::set_thread_rounds(3000);
        // regenerate one (unminimised) run from its seed and judge it
        let sc = prop.generate(run_seed(args.seed, run), run);
        println!("seed={} run={} config: {}", args.seed, run, sc.config);
        match prop.judge(&sc, None) {
            Some(v) => {
                let path = write_replay(args, &sc, &v, sc.ops.len(), false);
                println!("VIOLATION property={} replay={}", prop.id(), path);
                println!("  clause={} {}", v.clause, v.detail);
                return 1;
            }
            None => {
                println!("run {}: no violation ({} ops)", run, sc.ops.len());
                return 0;
            }
        }
    }

    let mut seam_note: Option<String> = None;
    if prop.id() == "C20" {
        seam_note = crate::props::c20::seam_probe();
        if let Some(n) = &seam_note {
            println!("note: {}", n);
        }
    }
    let mut runs = args.runs.unwrap_or_else(|| default_runs(prop.id(), &args.tier));
    if seam_note.is_some() && args.runs.is_none() {
        // a process spawn per run: a fifth of the usual budget keeps the tier's duration
        runs /= 5;
    }
    println!(
        "check {} tier={} VERIF_SEED={} runs={} threads={}",
        prop.id(),
        args.tier,
        args.seed,
        runs,
        args.threads
    );
    let res = run_batch(prop, args, runs);
    // from here on single scenarios are re-judged (interference check, minimiser): the natively
    // threaded C17 shape gets many more rounds, so that a verdict that depends on the kernel's
    // scheduling is reproduced with high probability
    crate::props::c17::set_thread_rounds(60);
    let known = load_known(prop.id());
    let mut known_hits: Vec<(Known, u64)> = Vec::new();
    let mut unlisted: Vec<&Found> = Vec::new();
    for (key, f) in &res.found {
        if let Some(k) = known.iter().find(|k| k.clause == key.0 && k.site == key.1) {
            known_hits.push((k.clone(), *res.counts.get(key).unwrap_or(&0)));
        } else {
            unlisted.push(f);
        }
    }
    unlisted.sort_by_key(|f| f.run);

    // determinism self-check of this very binary against this very tree: the first runs again,
    // single-threaded and at full width; every per-run event-log hash must agree. (The harness
    // alone is deterministic - ./check selftest-determinism - so a divergence here means the
    // code under test shares state between parser instances or reads something it should not;
    // it is fatal only when the batch found nothing to report, see below.)
    let det_runs = if args.no_extras { 0 } else { 1500u64.min(runs) };
    let h1 = crate::selftest::hashes_for(prop.id(), args, det_runs, 1);
    let hn = crate::selftest::hashes_for(prop.id(), args, det_runs, args.threads.max(2));
    let diverging = h1.iter().zip(hn.iter()).filter(|(a, b)| a != b).count() + h1.len().abs_diff(hn.len());
    let (mut extra, extra_violations) = if args.no_extras {
        (EvidenceExtra { items: vec![] }, vec![])
    } else {
        match prop.id() {
        "C01" => crate::extra::c01_extra(args),
        "C17" => crate::extra::c17_extra(args),
        "C18" => crate::extra::c18_extra(args, prop),
        "C20" => crate::extra::c20_extra(args, prop),
        _ => (EvidenceExtra { items: vec![] }, vec![]),
        }
    };

    if let Some(n) = seam_note {
        extra.items.push(("cli_seam".into(), J::Str(n)));
    }
    extra.items.push((
        "determinism_selfcheck".into(),
        J::obj()
            .set("runs", J::Int(det_runs as i64))
            .set("executions", J::str(&format!("1 worker and {} workers, same process", args.threads.max(2))))
            .set("diverging", J::Int(diverging as i64))
            .set("note", J::str("hash of the full event log per run (schedule + every input/outcome pair of every build + verdict); the cross-process, cross-profile version is ./check selftest-determinism")),
    ));
    let mut reported = 0usize;
    let mut lines: Vec<String> = Vec::new();
    // A violation that only shows while other workers run in the same process (state shared
    // between parser instances through a static) cannot be replayed from its schedule alone:
    // re-judge each find now that the workers are gone, and if it has evaporated look for a
    // deterministic witness sequentially.
    let mut replacements: Vec<Found> = Vec::new();
    let mut interference: Vec<&Found> = Vec::new();
    for f in unlisted.iter().take(8) {
        if !same(&prop.judge(&f.scenario, None), &f.violation) {
            interference.push(f);
        }
    }
    if !interference.is_empty() {
        let limit = runs.min(40_000);
        for k in 0..limit {
            let run = args.first_run + k;
            let sc = prop.generate(run_seed(args.seed, run), run);
            if let Some(v) = prop.judge(&sc, None) {
                if !known.iter().any(|kf| kf.clause == v.clause && kf.site == v.site) {
                    replacements.push(Found { run, scenario: sc, violation: v });
                    break;
                }
            }
        }
        for f in &interference {
            lines.push(format!(
                "  note: run {} violated {} / {} only while other simulated runs were executing in the same process \
                 (parser instances share state); {}",
                f.run,
                f.violation.clause,
                f.violation.site,
                if replacements.is_empty() { "no single-threaded witness found in the first runs" } else { "a single-threaded witness is reported instead" }
            ));
        }
    }
    let stable: Vec<&Found> = unlisted
        .iter()
        .copied()
        .filter(|f| !interference.iter().any(|g| g.run == f.run && g.violation.site == f.violation.site))
        .chain(replacements.iter())
        .collect();
    let stable: Vec<&Found> = if stable.is_empty() { unlisted.clone() } else { stable };
    for f in stable.iter().take(8) {
        let (mut msc, mut mv) = minimise(prop, &f.scenario, &f.violation);
        let mut path = write_replay(args, &msc, &mv, f.scenario.ops.len(), true);
        // the minimised file must reproduce in a fresh process
        let mut confirmed = confirm_in_fresh_process(prop.id(), &path);
        if !confirmed {
            // the verdict depended on state earlier runs left behind in this process (a static
            // in the code under test): redo the work with every judgement in a fresh process
            let mut witness: Option<(Scenario, Violation)> = None;
            if let Some(v) = judge_fresh(prop, &f.scenario) {
                witness = Some((f.scenario.clone(), v));
            } else {
                for k in 0..400u64 {
                    let run = args.first_run + k;
                    let sc = prop.generate(run_seed(args.seed, run), run);
                    if let Some(v) = judge_fresh(prop, &sc) {
                        witness = Some((sc, v));
                        break;
                    }
                }
            }
            if let Some((wsc, wv)) = witness {
                let _ = std::fs::remove_file(&path);
                let original = wsc.ops.len();
                let (a, b) = minimise_with(prop, &wsc, &wv, 500, &|c: &Scenario| judge_fresh(prop, c));
                msc = a;
                mv = b;
                path = write_replay(args, &msc, &mv, original, true);
                confirmed = confirm_in_fresh_process(prop.id(), &path);
                lines.push("  note: verdicts of this violation depend on state left in the process by earlier runs; it was re-found and minimised with every judgement in a fresh process".into());
            }
        }
        lines.push(format!("VIOLATION property={} replay={}", prop.id(), path));
        lines.push(format!(
            "  clause={} site={} build={} run={} ops={} (from {}) runs_with_this_violation={} fresh_process_replay={}",
            mv.clause,
            mv.site,
            mv.build,
            f.run,
            msc.ops.len(),
            f.scenario.ops.len(),
            res.counts.get(&(f.violation.clause.clone(), f.violation.site.clone())).unwrap_or(&0),
            if cfg!(miri) { "not-attempted-under-miri" } else if confirmed { "reproduced" } else { "NOT-REPRODUCED" }
        ));
        lines.push(format!("  {}", mv.detail));
        reported += 1;
    }
    for (path, detail) in &extra_violations {
        lines.push(format!("VIOLATION property={} replay={}", prop.id(), path));
        lines.push(format!("  {}", detail));
        reported += 1;
    }
    if args.write_evidence {
        write_evidence(prop, args, &res, reported, &known_hits, extra);
    }
    for (k, c) in &known_hits {
        println!(
            "KNOWN-FINDING: property={} {} (clause={} site={} runs={})",
            prop.id(),
            k.what,
            k.clause,
            k.site,
            c
        );
    }
    for l in &lines {
        println!("{}", l);
    }
    println!(
        "{}: {} runs, {} ops, {:.1} s, {} runs/s, {} distinct abstract histories, {} unlisted violation class(es), {} known",
        prop.id(),
        res.runs_done,
        res.stats.ops,
        res.wall_s,
        (res.runs_done as f64 / res.wall_s.max(0.001)) as u64,
        res.stats.histories.len(),
        reported,
        known_hits.len()
    );
    if !res.stats.interleavings.is_empty() {
        let mut v: Vec<u64> = res.stats.interleavings.iter().copied().collect();
        v.sort_unstable();
        let mut d = crate::rng::Fnv::default();
        for x in &v {
            d.write_u64(*x);
        }
        println!("{}: concurrent shape: {} distinct interleaving(s) observed, digest {:016x}", prop.id(), v.len(), d.0);
    }
    if diverging > 0 {
        // The harness alone is deterministic (./check selftest-determinism on the unchanged tree),
        // so this points at the code under test: state shared between parser instances, which
        // C17's independence oracle judges. It is recorded and shouted, but it is not this
        // property's verdict.
        eprintln!(
            "check: WARNING: {} of {} runs are not deterministic (event-log hash differs between a 1-worker and a {}-worker execution of the same seeds): the code under test shares state between parser instances or reads something outside its arguments",
            diverging,
            det_runs,
            args.threads.max(2)
        );
    }
    if reported > 0 {
        1
    } else {
        0
    }
}

fn confirm_in_fresh_process(prop: &str, path: &str) -> bool {
    if cfg!(miri) {
        // Miri cannot spawn processes; the schedule is a function of -Zmiri-seed, and the caller
        // of the Miri slice replays the file with `./check <id> --replay <file> --miri <k>`
        return true;
    }
    let exe = match std::env::current_exe() {
        Ok(e) => e,
        Err(_) => return false,
    };
    match std::process::Command::new(exe)
        .args(["check", prop, "--replay", path])
        .output()
    {
        Ok(o) => {
            o.status.code() == Some(1)
                && String::from_utf8_lossy(&o.stdout).contains(&format!("VIOLATION property={}", prop))
        }
        Err(_) => false,
    }
}

pub fn cmd_replay(prop: &dyn Prop, _args: &Args, path: &str) -> i32 {
    crate::props::c17::set_thread_rounds(3000);
    if prop.id() == "C20" {
        let _ = crate::props::c20::seam_probe();
    }
    let (sc, want) = match load_replay(path) {
        Ok(x) => x,
        Err(e) => {
            eprintln!("check: HARNESS ERROR: cannot load replay {}: {}", path, e);
            return 2;
        }
    };
    if sc.prop != prop.id() {
        eprintln!("check: HARNESS ERROR: replay file is for {} not {}", sc.prop, prop.id());
        return 2;
    }
    match prop.judge(&sc, None) {
        Some(v) => {
            println!("VIOLATION property={} replay={}", prop.id(), path);
            println!("  clause={} site={} build={} at_op={}", v.clause, v.site, v.build, v.at);
            println!("  {}", v.detail);
            if let Some((c, s)) = want {
                if c != v.clause || s != v.site {
                    println!("  note: recorded violation was clause={} site={}", c, s);
                }
            }
            1
        }
        None => {
            println!("replay {}: no violation on the current tree", path);
            0
        }
    }
}

// ---------------------------------------------------------------------------------------
// abort containment: the batch runs in a child process; if the child is killed by a signal
// (segfault after memory corruption, abort, stack overflow) the supervisor - which never
// executes the code under test - narrows the death down to one run and one operation prefix
// ---------------------------------------------------------------------------------------

fn child_dies(argv: &[String]) -> Option<bool> {
    let exe = std::env::current_exe().ok()?;
    let st = std::process::Command::new(exe)
        .args(argv)
        .env("AISSIM_CHILD", "1")
        .stdout(std::process::Stdio::null())
        .stderr(std::process::Stdio::null())
        .status()
        .ok()?;
    Some(match st.code() {
        Some(c) => c >= 126,
        None => true,
    })
}

/// signals that mean "the process destroyed itself": the harness has no `unsafe` code, so they
/// are attributable to the code under test (SIGKILL - the OOM killer, an operator - is not)
fn is_fault_signal(st: &std::process::ExitStatus) -> bool {
    use std::os::unix::process::ExitStatusExt;
    matches!(st.signal(), Some(4) | Some(6) | Some(7) | Some(8) | Some(11)) || matches!(st.code(), Some(c) if c >= 126)
}

/// A death that does not reproduce from one schedule alone (it needs the other workers of the
/// batch: memory corrupted through state shared between parser instances). The replay file then
/// describes the batch range instead of a schedule; replaying it re-runs that range (up to five
/// times) and reports whether the worker dies again.
fn report_unisolated_death(args: &Args, prop: &str, st: &std::process::ExitStatus, first_run: u64, runs: u64, why: &str) -> i32 {
    let dir = std::env::var("AISSIM_REPLAY_DIR").unwrap_or_else(|_| format!("{}/replays", verif_dir()));
    let _ = std::fs::create_dir_all(&dir);
    let path = format!("{}/{}-{}-batch-{}-{}.json", dir, prop, args.seed, first_run, runs);
    let detail = format!(
        "the worker process executing runs {}..{} of seed {} on {} threads was killed ({:?}) - memory corruption, abort or stack overflow in the code under test - and {}: the death needs several parser instances running at the same time (state shared between them)",
        first_run, first_run + runs, args.seed, args.threads, st, why
    );
    let j = J::obj()
        .set("property", J::str(prop))
        .set(
            "violation",
            J::obj()
                .set("property", J::str(prop))
                .set("clause", J::str("process-killed"))
                .set("site", J::str("not-reproducible-from-one-schedule"))
                .set("detail", J::Str(detail.clone())),
        )
        .set(
            "batch",
            J::obj()
                .set("seed", J::Str(args.seed.to_string()))
                .set("tier", J::Str(args.tier.clone()))
                .set("first_run", J::Int(first_run as i64))
                .set("runs", J::Int(runs as i64))
                .set("threads", J::Int(args.threads as i64)),
        )
        .set("replay_cmd", J::Str(format!("./check {} --replay {}", prop, path)));
    let _ = std::fs::write(&path, j.to_string_pretty());
    println!("VIOLATION property={} replay={}", prop, path);
    println!("  clause=process-killed site=not-reproducible-from-one-schedule {}", detail);
    1
}

/// replay of a batch descriptor written by `report_unisolated_death`
fn replay_batch(args: &Args, path: &str, j: &J) -> i32 {
    let b = j.get("batch").unwrap();
    let g = |k: &str| -> String {
        match b.get(k) {
            Some(J::Str(s)) => s.clone(),
            Some(J::Int(i)) => i.to_string(),
            _ => "0".into(),
        }
    };
    let argv: Vec<String> = vec![
        "check".into(), args.prop.clone(), "--seed".into(), g("seed"), "--tier".into(), g("tier"),
        "--first-run".into(), g("first_run"), "--runs".into(), g("runs"), "--threads".into(), g("threads"),
        "--no-evidence".into(), "--no-extras".into(),
    ];
    for attempt in 1..=5 {
        if child_dies(&argv).unwrap_or(false) {
            println!("VIOLATION property={} replay={}", args.prop, path);
            println!("  clause=process-killed site=not-reproducible-from-one-schedule the worker executing this batch range was killed again (attempt {} of 5)", attempt);
            return 1;
        }
    }
    println!("replay {}: the batch range ran five times without the worker being killed", path);
    0
}

pub fn supervise(args: &Args, argv: &[String]) -> i32 {
    if let Some(path) = &args.replay {
        if let Some(j) = std::fs::read_to_string(path).ok().and_then(|s| json::parse(&s).ok()) {
            if j.get("batch").is_some() {
                return replay_batch(args, path, &j);
            }
        }
    }
    let exe = match std::env::current_exe() {
        Ok(e) => e,
        Err(e) => {
            eprintln!("check: HARNESS ERROR: {}", e);
            return 2;
        }
    };
    let mut child = match std::process::Command::new(&exe).args(&argv[1..]).env("AISSIM_CHILD", "1").spawn() {
        Ok(c) => c,
        Err(e) => {
            eprintln!("check: HARNESS ERROR: cannot spawn worker process: {}", e);
            return 2;
        }
    };
    // a batch has its own watchdog; a single replayed schedule has none, so it is bounded here
    let single = args.replay.is_some() || args.run_index.is_some();
    let t0 = Instant::now();
    let st = loop {
        match child.try_wait() {
            Ok(Some(st)) => break st,
            Ok(None) => {
                if single && t0.elapsed().as_secs() > watchdog::LIMIT_S * 3 {
                    let _ = child.kill();
                    let _ = child.wait();
                    let what = args.replay.clone().unwrap_or_else(|| format!("(seed {} run {})", args.seed, args.run_index.unwrap_or(0)));
                    println!("VIOLATION property={} replay={}", args.prop, what);
                    println!(
                        "  clause=hang executing this schedule did not finish within {} s",
                        watchdog::LIMIT_S * 3
                    );
                    return 1;
                }
                std::thread::sleep(std::time::Duration::from_millis(if single { 20 } else { 100 }));
            }
            Err(e) => {
                eprintln!("check: HARNESS ERROR: waiting for the worker process: {}", e);
                return 2;
            }
        }
    };
    if let Some(c) = st.code() {
        if c < 126 {
            return c;
        }
    }
    NO_ANSWERS.store(true, Ordering::Relaxed);
    let prop = match props::by_id(&args.prop) {
        Some(p) => p,
        None => return 2,
    };
    let prop: &dyn Prop = prop.as_ref();
    println!("worker process died ({:?}): containing", st);
    if let Some(path) = &args.replay {
        println!("VIOLATION property={} replay={}", prop.id(), path);
        println!("  clause=process-killed the process executing this replay was killed ({:?})", st);
        return 1;
    }
    let base: Vec<String> = vec![
        "check".into(),
        args.prop.clone(),
        "--seed".into(),
        args.seed.to_string(),
        "--tier".into(),
        args.tier.clone(),
        "--no-evidence".into(),
        "--no-extras".into(),
    ];
    let total = args.runs.unwrap_or_else(|| default_runs(prop.id(), &args.tier));
    let range_dies = |a: u64, n: u64| -> bool {
        let mut v = base.clone();
        v.extend(["--first-run".into(), a.to_string(), "--runs".into(), n.to_string()]);
        child_dies(&v).unwrap_or(false)
    };
    // find the first run whose execution kills the process
    let (mut lo, mut len) = (args.first_run, total);
    if !range_dies(lo, len) && !range_dies(lo, len) && !range_dies(lo, len) {
        if is_fault_signal(&st) {
            return report_unisolated_death(args, prop.id(), &st, lo, len, "three re-runs of the whole range survived");
        }
        eprintln!("check: HARNESS ERROR: the worker died once ({:?}) but not when re-run; not reproducible", st);
        return 2;
    }
    while len > 1 {
        let half = len / 2;
        if range_dies(lo, half) {
            len = half;
        } else {
            lo += half;
            len -= half;
            // (the death must then be in the second half; verified at the end)
        }
    }
    let run = lo;
    let mut sc = prop.generate(run_seed(args.seed, run), run);
    let original_ops = sc.ops.len();
    let tmp = format!(
        "{}/contain-{}.json",
        std::env::var("AISSIM_WORK").unwrap_or_else(|_| "/tmp".into()),
        std::process::id()
    );
    let replay_dies = |sc: &Scenario| -> bool {
        let j = J::obj().set("scenario", sc.to_json());
        if std::fs::write(&tmp, j.to_string_compact()).is_err() {
            return false;
        }
        child_dies(&["check".into(), args.prop.clone(), "--replay".into(), tmp.clone()]).unwrap_or(false)
    };
    if !replay_dies(&sc) {
        if is_fault_signal(&st) {
            // (the bisection above followed deaths that may have been different ones each time:
            // describe the whole range, which is what was observed)
            return report_unisolated_death(args, prop.id(), &st, args.first_run, total, "no single run of the range kills a process when replayed alone");
        }
        eprintln!(
            "check: HARNESS ERROR: run {} kills the worker inside a batch but not when replayed alone",
            run
        );
        return 2;
    }
    // shortest killing prefix, then drop operations one at a time
    if sc.stream.is_none() {
        let (mut a, mut b) = (1usize, sc.ops.len());
        while a < b {
            let mid = (a + b) / 2;
            let mut c = sc.clone();
            c.ops.truncate(mid);
            if replay_dies(&c) {
                b = mid;
            } else {
                a = mid + 1;
            }
        }
        sc.ops.truncate(b);
        let mut i = 0;
        while i + 1 < sc.ops.len() && sc.ops.len() <= 64 {
            if prop.droppable(&sc, i) {
                let mut c = sc.clone();
                c.ops.remove(i);
                if replay_dies(&c) {
                    sc = c;
                    continue;
                }
            }
            i += 1;
        }
    }
    let _ = std::fs::remove_file(&tmp);
    let v = Violation {
        prop: prop.id().into(),
        clause: "process-killed".into(),
        at: sc.ops.len().saturating_sub(1),
        build: "?".into(),
        detail: format!(
            "executing this schedule kills the process ({:?}): memory corruption, abort or stack overflow in the code under test",
            st
        ),
        site: "process-killed".into(),
    };
    let path = write_replay(args, &sc, &v, original_ops, true);
    println!("VIOLATION property={} replay={}", prop.id(), path);
    println!("  clause=process-killed run={} ops={} (from {}) {}", run, sc.ops.len(), original_ops, v.detail);
    // evidence: what was covered before the killing run
    if args.write_evidence && run > args.first_run {
        let mut v2 = base.clone();
        v2.retain(|a| a != "--no-evidence" && a != "--no-extras");
        v2.extend(["--first-run".into(), args.first_run.to_string(), "--runs".into(), (run - args.first_run).to_string()]);
        let _ = child_dies(&v2);
        let ev_path = format!("{}/evidence/{}.json", verif_dir(), prop.id());
        if let Ok(src) = std::fs::read_to_string(&ev_path) {
            if let Ok(j) = json::parse(&src) {
                let j = j.set("violations", J::Int(1));
                let _ = std::fs::write(&ev_path, j.to_string_pretty());
            }
        }
    }
    1
}

//! Determinism self-test: the same seeds, run twice at different worker counts, must give
//! identical event-log hashes run by run.

use crate::props;
use crate::runner::{run_batch, Args};

pub const PROPS: &[&str] = &["C01", "C02", "C05", "C06", "C17", "C18", "C20"];

pub fn hashes_for(prop: &str, args: &Args, runs: u64, threads: usize) -> Vec<(u64, u64)> {
    let p = props::by_id(prop).unwrap();
    let mut a = args.clone();
    a.log_hashes = true;
    a.threads = threads;
    let res = run_batch(p.as_ref(), &a, runs);
    let mut h = res.stats.log_hashes;
    h.sort_unstable();
    h
}

/// prints one line per property: a digest over all per-run hashes (used by the cross-process
/// comparison in ./check selftest-determinism)
pub fn cmd_hashes(args: &Args) -> i32 {
    let runs = args.runs.unwrap_or(2000);
    for p in PROPS {
        if !args.prop.is_empty() && args.prop != *p {
            continue;
        }
        let h = hashes_for(p, args, runs, args.threads);
        let mut d = crate::rng::Fnv::default();
        for (r, x) in &h {
            d.write_u64(*r);
            d.write_u64(*x);
        }
        println!("{} runs={} digest={:016x}", p, h.len(), d.0);
    }
    0
}

pub fn cmd_selftest(args: &Args) -> i32 {
    let runs = args.runs.unwrap_or(3000);
    let mut bad = 0;
    for p in PROPS {
        let a = hashes_for(p, args, runs, 1);
        let b = hashes_for(p, args, runs, 16);
        let c = hashes_for(p, args, runs, 5);
        let mut diverged = 0;
        for ((x, y), z) in a.iter().zip(b.iter()).zip(c.iter()) {
            if x != y || x != z {
                diverged += 1;
            }
        }
        if a.len() != b.len() || a.len() != c.len() {
            diverged += 1;
        }
        println!(
            "selftest-determinism {}: {} runs x 3 executions (1, 16 and 5 workers): {} diverging",
            p,
            a.len(),
            diverged
        );
        if diverged > 0 {
            bad += 1;
        }
    }
    if bad > 0 {
        eprintln!("check: HARNESS ERROR: the simulator is not deterministic for {} propert(y/ies)", bad);
        2
    } else {
        println!("selftest-determinism: ok");
        0
    }
}

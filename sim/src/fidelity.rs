//! Fidelity cross-check of C18 (thorough tier): recorded schedules replayed in a binary that
//! links only the no-alloc build, with nom compiled without any feature.

use crate::props::Prop;
use crate::runner::{Args, EvidenceExtra};

pub fn c18_fidelity(_args: &Args, _prop: &dyn Prop) -> (EvidenceExtra, Vec<(String, String)>) {
    (EvidenceExtra { items: vec![] }, vec![])
}

//! Fidelity cross-check of C18: recorded schedules are replayed in a binary that links only
//! the no-alloc build, with nom compiled without any feature (in the simulator binary cargo
//! unifies nom's features to std+alloc for all three builds). The outcome logs must be
//! identical line by line; a difference means the in-process no-alloc node is not faithful to
//! a real no-alloc build and is reported as a harness error, not as a verdict.

use crate::json::{hex, J};
use crate::nodes::{new_node, Build, Node};
use crate::ops::Op;
use crate::props::Prop;
use crate::rng::run_seed;
use crate::runner::{Args, EvidenceExtra};
use std::io::Write;

pub fn c18_fidelity(args: &Args, prop: &dyn Prop) -> (EvidenceExtra, Vec<(String, String)>) {
    let exe = match std::env::var("AISSIM_NONEONLY") {
        Ok(e) if std::path::Path::new(&e).exists() => e,
        _ => {
            return (
                EvidenceExtra {
                    items: vec![(
                        "noalloc_only_binary_crosscheck".into(),
                        J::obj().set("ran", J::Bool(false)).set("reason", J::str("none-only binary not built")),
                    )],
                },
                vec![],
            )
        }
    };
    let count: u64 = if args.tier == "thorough" { 20_000 } else { 1_500 };
    let mut script = String::new();
    let mut expected: Vec<String> = Vec::new();
    for i in 0..count {
        let run = i * 3 + 1;
        let sc = prop.generate(run_seed(args.seed, run), run);
        let nn = sc.nodes.max(1);
        script.push_str(&format!("N {}\n", nn));
        let mut nodes: Vec<Box<dyn Node>> = (0..nn).map(|_| new_node(Build::None)).collect();
        for op in &sc.ops {
            match op {
                Op::Line(l) => {
                    let n = l.node.min(nn - 1);
                    script.push_str(&format!("L {} {} {}\n", n, if l.decode { 1 } else { 0 }, hex(&l.bytes)));
                    expected.push(nodes[n].parse_text(&l.bytes, l.decode));
                }
                Op::Restart { node } => {
                    let n = (*node).min(nn - 1);
                    script.push_str(&format!("R {}\n", n));
                    nodes[n].restart();
                }
                _ => {}
            }
        }
    }
    let t0 = std::time::Instant::now();
    let mut child = match std::process::Command::new(&exe)
        .stdin(std::process::Stdio::piped())
        .stdout(std::process::Stdio::piped())
        .stderr(std::process::Stdio::null())
        .spawn()
    {
        Ok(c) => c,
        Err(e) => {
            eprintln!("check: HARNESS ERROR: cannot run {}: {}", exe, e);
            std::process::exit(2);
        }
    };
    let mut stdin = child.stdin.take().unwrap();
    let writer = std::thread::spawn(move || {
        let _ = stdin.write_all(script.as_bytes());
    });
    let out = child.wait_with_output();
    let _ = writer.join();
    let out = match out {
        Ok(o) => o,
        Err(e) => {
            eprintln!("check: HARNESS ERROR: none-only binary failed: {}", e);
            std::process::exit(2);
        }
    };
    let text = String::from_utf8_lossy(&out.stdout);
    let got: Vec<&str> = text.lines().collect();
    let mut mismatches = 0u64;
    let mut first: Option<String> = None;
    if got.len() != expected.len() {
        mismatches += 1;
        first = Some(format!("{} outcomes from the none-only binary, {} in-process", got.len(), expected.len()));
    }
    for (i, (g, e)) in got.iter().zip(expected.iter()).enumerate() {
        if g != e {
            mismatches += 1;
            if first.is_none() {
                first = Some(format!("line {}: none-only binary {:?} vs in-process {:?}", i, g, e));
            }
        }
    }
    if mismatches > 0 {
        eprintln!(
            "check: HARNESS ERROR: the in-process no-alloc node and the none-only binary (nom without features) disagree on {} outcome(s): {}",
            mismatches,
            first.unwrap_or_default()
        );
        std::process::exit(2);
    }
    (
        EvidenceExtra {
            items: vec![(
                "noalloc_only_binary_crosscheck".into(),
                J::obj()
                    .set("ran", J::Bool(true))
                    .set("schedules", J::Int(count as i64))
                    .set("outcomes_compared", J::Int(expected.len() as i64))
                    .set("mismatches", J::Int(0))
                    .set("wall_s", J::Num((t0.elapsed().as_secs_f64() * 100.0).round() / 100.0))
                    .set(
                        "note",
                        J::str("same delivered schedules replayed in a binary linking only the no-alloc build with nom built without features; outcomes (Debug of the sentence) identical line by line"),
                    ),
            )],
        },
        vec![],
    )
}

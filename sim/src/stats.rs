//! What a batch measured: fault fire counts, reach probes, coverage of the abstract
//! reassembler, distinct abstract histories. All counted, none assumed.

use crate::link::NF;
use crate::nodes::Outcome;
use crate::ops::*;
use crate::rng::Fnv;
use crate::world::lex;
use std::collections::{BTreeMap, BTreeSet, HashSet};

/// hasher for sets of values that are hashes already. `RandomState` would draw its keys from the
/// host's randomness, and under Miri (isolation off) that makes the number of executed basic
/// blocks - and with it every later scheduling decision - differ from run to run.
#[derive(Default, Clone, Copy)]
pub struct IdentityHasher(u64);
impl std::hash::Hasher for IdentityHasher {
    fn finish(&self) -> u64 {
        self.0
    }
    fn write(&mut self, bytes: &[u8]) {
        for &b in bytes {
            self.0 = (self.0 << 8) | b as u64;
        }
    }
    fn write_u64(&mut self, v: u64) {
        self.0 = v;
    }
}
pub type U64Set = HashSet<u64, std::hash::BuildHasherDefault<IdentityHasher>>;

#[derive(Clone, Debug, Default)]
pub struct Stats {
    pub runs: u64,
    pub ops: u64,
    pub lines: u64,
    pub restarts: u64,
    pub direct_api_calls: u64,
    pub judged: u64,
    pub premise_failed: u64,
    pub unscoped: u64,
    pub fired: [u64; NF],
    pub probes: BTreeMap<&'static str, u64>,
    pub dyn_probes: BTreeMap<String, u64>,
    /// cheap set-valued probes: (kind, value)
    pub marks: BTreeSet<(u8, u32)>,
    pub outcomes: BTreeMap<&'static str, u64>,
    /// cells (state, incoming, outcome) of the abstract reassembler that were hit
    pub cells: BTreeSet<(u8, u8, u8)>,
    /// hashes of abstract histories (sequence of (incoming class, outcome class) per run)
    pub histories: U64Set,
    /// hashes of full event logs per run index (determinism self-test only)
    pub log_hashes: Vec<(u64, u64)>,
    pub keep_log_hashes: bool,
    pub samples: Vec<String>,
    /// C17 concurrent shape: hashes of the observed interleavings (the order, at line granularity,
    /// in which the threads' parse calls were started), std build
    pub interleavings: U64Set,
}

impl Stats {
    pub fn probe(&mut self, name: &'static str) {
        *self.probes.entry(name).or_insert(0) += 1;
    }
    pub fn probe_if(&mut self, cond: bool, name: &'static str) {
        let e = self.probes.entry(name).or_insert(0);
        if cond {
            *e += 1;
        }
    }
    pub fn dyn_probe(&mut self, name: String) {
        *self.dyn_probes.entry(name).or_insert(0) += 1;
    }
    pub fn outcome(&mut self, o: &Outcome) {
        *self.outcomes.entry(o.kind()).or_insert(0) += 1;
    }
    pub fn merge(&mut self, other: Stats) {
        self.runs += other.runs;
        self.ops += other.ops;
        self.lines += other.lines;
        self.restarts += other.restarts;
        self.direct_api_calls += other.direct_api_calls;
        self.judged += other.judged;
        self.premise_failed += other.premise_failed;
        self.unscoped += other.unscoped;
        for i in 0..NF {
            self.fired[i] += other.fired[i];
        }
        for (k, v) in other.probes {
            *self.probes.entry(k).or_insert(0) += v;
        }
        for (k, v) in other.dyn_probes {
            *self.dyn_probes.entry(k).or_insert(0) += v;
        }
        for (k, v) in other.outcomes {
            *self.outcomes.entry(k).or_insert(0) += v;
        }
        self.cells.extend(other.cells);
        self.marks.extend(other.marks);
        self.histories.extend(other.histories);
        self.interleavings.extend(other.interleavings);
        self.log_hashes.extend(other.log_hashes);
        if self.samples.len() < 6 {
            for s in other.samples {
                if self.samples.len() < 6 {
                    self.samples.push(s);
                }
            }
        }
    }
    pub fn count_faults(&mut self, sc: &Scenario) {
        for op in &sc.ops {
            match op {
                Op::Line(l) => {
                    for f in &l.faults {
                        self.fired[f.index()] += 1;
                    }
                }
                Op::Restart { .. } => self.fired[Fault::Restart.index()] += 1,
                _ => {}
            }
        }
        for f in &sc.hidden_faults {
            self.fired[f.index()] += 1;
        }
        if let Some(s) = &sc.stream {
            for f in &s.faults {
                self.fired[f.index()] += 1;
            }
        }
    }
}

// ---------------------------------------------------------------------------------------
// abstract reassembler: state x incoming class x outcome class
// ---------------------------------------------------------------------------------------

pub const STATE_NAMES: &[&str] = &[
    "closed",
    "open,stored=1,id=none",
    "open,stored=1,id=some",
    "open,stored=2,id=none",
    "open,stored=2,id=some",
    "open,stored>=3,id=none",
    "open,stored>=3,id=some",
];

pub const INCOMING_NAMES: &[&str] = &[
    "unfragmented",
    "opener(k=1,n>=2)",
    "continues(k=stored+1,same id),inner",
    "continues(k=stored+1,same id),final",
    "duplicate(k=stored,same id)",
    "earlier(k<stored,same id)",
    "skips(k>stored+1,same id)",
    "fragment of other id",
    "fragment k>=2 while closed",
    "invalid numbering (k=0,n=0 or k>n)",
    "malformed",
    "bad checksum",
    "restart",
];

pub const OUTCOME_NAMES: &[&str] = &["Complete", "Incomplete", "ErrNmea", "ErrChecksum", "Panic", "-"];

/// observer's view of one node's reassembly state, inferred from accepted results only
#[derive(Clone, Debug, Default)]
pub struct AbsNode {
    pub open: bool,
    pub stored: u8,
    pub id: Option<u8>,
    hist: Fnv,
}

impl AbsNode {
    fn state_idx(&self) -> u8 {
        if !self.open {
            return 0;
        }
        let s = match self.stored {
            0 | 1 => 0,
            2 => 1,
            _ => 2,
        };
        1 + s * 2 + if self.id.is_some() { 1 } else { 0 }
    }

    pub fn restart(&mut self, st: &mut Stats) {
        st.cells.insert((self.state_idx(), 12, 5));
        self.hist.write(&[12, 5]);
        self.open = false;
        self.stored = 0;
        self.id = None;
    }

    /// classifies the delivered line against the inferred state, records the cell,
    /// then advances the inferred state from the outcome
    pub fn observe(&mut self, line: &[u8], out: &Outcome, st: &mut Stats) {
        let incoming = self.classify(line);
        let oc: u8 = match out {
            Outcome::Complete(..) => 0,
            Outcome::Incomplete(..) => 1,
            Outcome::ErrNmea(_) => 2,
            Outcome::ErrChecksum { .. } => 3,
            Outcome::Panic(_) => 4,
        };
        st.cells.insert((self.state_idx(), incoming, oc));
        self.hist.write(&[incoming, oc]);
        match out {
            Outcome::Incomplete(s, _) => {
                if s.k == 1 {
                    self.open = true;
                    self.stored = 1;
                    self.id = s.id;
                } else if self.open {
                    self.stored = s.k;
                }
            }
            Outcome::Complete(s, _) => {
                if s.n != 1 {
                    self.open = false;
                    self.stored = 0;
                    self.id = None;
                }
            }
            _ => {}
        }
    }

    pub fn history_hash(&self) -> u64 {
        self.hist.0
    }

    fn classify(&self, line: &[u8]) -> u8 {
        let lx = match lex(line) {
            Some(l) => l,
            None => return 10,
        };
        if lx.fields.len() != 7 {
            return 10;
        }
        let num = |i: usize| -> Option<u32> {
            let f = lx.field(line, i)?;
            if f.is_empty() || !f.iter().all(|b| b.is_ascii_digit()) {
                return None;
            }
            std::str::from_utf8(f).ok()?.parse::<u32>().ok()
        };
        let (n, k) = match (num(1), num(2)) {
            (Some(n), Some(k)) if n <= 255 && k <= 255 => (n as u8, k as u8),
            _ => return 10,
        };
        let idf = lx.field(line, 3).unwrap_or(b"");
        let id = if idf.is_empty() {
            None
        } else {
            match num(3) {
                Some(v) if v <= 255 => Some(v as u8),
                _ => return 10,
            }
        };
        match lx.value {
            None => return 10,
            Some(v) if v > 0xff => return 10,
            Some(v) => {
                if v as u8 != crate::world::xor(lx.body(line)) {
                    return 11;
                }
            }
        }
        if n == 0 || k == 0 || k > n {
            return 9;
        }
        if n == 1 {
            return 0;
        }
        if k == 1 {
            return 1;
        }
        if !self.open {
            return 8;
        }
        if id != self.id {
            return 7;
        }
        if k == self.stored.wrapping_add(1) {
            return if k == n { 3 } else { 2 };
        }
        if k == self.stored {
            return 4;
        }
        if k < self.stored {
            return 5;
        }
        6
    }
}

/// one hash per run: the per-node abstract histories, in node order
pub fn combined_history(abs: &[AbsNode]) -> u64 {
    let mut h = Fnv::default();
    for a in abs {
        h.write_u64(a.history_hash());
    }
    h.0
}

//! The nodes: the real `AisParser` of the three build configurations, compiled from the
//! repository's current working tree (shadow manifests `ais_std`, `ais_alloc`, `ais_none`),
//! wrapped so that every call returns a canonical, build-independent `Outcome`.

use std::cell::RefCell;
use std::panic::{catch_unwind, AssertUnwindSafe};

#[derive(Clone, Copy, Debug, PartialEq, Eq, PartialOrd, Ord, Hash)]
pub enum Build {
    Std,
    Alloc,
    None,
}

impl Build {
    pub fn name(self) -> &'static str {
        match self {
            Build::Std => "std",
            Build::Alloc => "alloc",
            Build::None => "none",
        }
    }
    pub fn from_name(s: &str) -> Option<Build> {
        match s {
            "std" => Some(Build::Std),
            "alloc" => Some(Build::Alloc),
            "none" => Some(Build::None),
            _ => None,
        }
    }
    pub const ALL: [Build; 3] = [Build::Std, Build::Alloc, Build::None];
}

/// Canonical view of an `AisSentence` (all public fields)
#[derive(Clone, Debug, PartialEq, Eq)]
pub struct Sent {
    pub talker: String,
    pub report: String,
    pub n: u8,
    pub k: u8,
    pub id: Option<u8>,
    pub channel: Option<char>,
    pub data: Vec<u8>,
    pub fill: u8,
    pub message_type: u8,
    /// `format!("{:?}", message)` of the decoded message, if any
    pub message: Option<String>,
}

/// What converting the returned `AisFragments` into `Option<AisSentence>` or
/// `Result<AisSentence>` gave (one of the two conversions is applied per call, chosen by
/// the caller; the other consumes the value too, so both cannot be observed on one result)
#[derive(Clone, Debug, PartialEq, Eq)]
pub enum Conv {
    /// conversion yielded the sentence, and it is equal to the one inside the result
    SomeSame,
    /// conversion yielded a sentence that differs from the one inside the result
    SomeDifferent,
    /// conversion yielded None / Err
    Nothing,
}

#[derive(Clone, Debug, PartialEq, Eq)]
pub enum Outcome {
    Complete(Sent, Conv),
    Incomplete(Sent, Conv),
    ErrNmea(String),
    ErrChecksum { expected: u8, found: u8 },
    Panic(String),
}

impl Outcome {
    pub fn kind(&self) -> &'static str {
        match self {
            Outcome::Complete(..) => "Complete",
            Outcome::Incomplete(..) => "Incomplete",
            Outcome::ErrNmea(_) => "ErrNmea",
            Outcome::ErrChecksum { .. } => "ErrChecksum",
            Outcome::Panic(_) => "Panic",
        }
    }
    pub fn accepted(&self) -> Option<&Sent> {
        match self {
            Outcome::Complete(s, _) | Outcome::Incomplete(s, _) => Some(s),
            _ => None,
        }
    }
    pub fn is_err(&self) -> bool {
        matches!(self, Outcome::ErrNmea(_) | Outcome::ErrChecksum { .. })
    }
    pub fn is_panic(&self) -> bool {
        matches!(self, Outcome::Panic(_))
    }
    /// short rendering for logs and replay files
    pub fn brief(&self) -> String {
        match self {
            Outcome::Complete(s, c) => format!(
                "Complete(n={},k={},id={:?},len={},fill={},msg={},conv={:?})",
                s.n,
                s.k,
                s.id,
                s.data.len(),
                s.fill,
                match &s.message {
                    Some(m) => m.split('(').next().unwrap_or("").to_string(),
                    None => "-".into(),
                },
                c
            ),
            Outcome::Incomplete(s, c) => format!(
                "Incomplete(n={},k={},id={:?},len={},fill={},conv={:?})",
                s.n,
                s.k,
                s.id,
                s.data.len(),
                s.fill,
                c
            ),
            Outcome::ErrNmea(m) => {
                let mut m = m.clone();
                if m.len() > 80 {
                    m.truncate(80);
                    m.push('…');
                }
                format!("Err(Nmea:{})", m)
            }
            Outcome::ErrChecksum { expected, found } => {
                format!("Err(Checksum expected={:#04x} found={:#04x})", expected, found)
            }
            Outcome::Panic(m) => format!("PANIC({})", m),
        }
    }
    /// category used for cross-build comparison of rejections
    pub fn category(&self) -> &'static str {
        self.kind()
    }
}

/// result of the two public payload functions
#[derive(Clone, Debug, PartialEq, Eq)]
pub enum ApiOutcome {
    Ok(String),
    Err(String),
    Panic(String),
}

thread_local! {
    static LAST_PANIC: RefCell<Option<String>> = const { RefCell::new(None) };
}

/// Installs a silent panic hook that records message and location for the catching
/// thread. Panics of the harness itself (outside `guard`) are still printed.
pub fn install_panic_hook() {
    let default = std::panic::take_hook();
    std::panic::set_hook(Box::new(move |info| {
        let guarded = GUARD_DEPTH.with(|d| *d.borrow() > 0);
        let msg = if let Some(s) = info.payload().downcast_ref::<&str>() {
            s.to_string()
        } else if let Some(s) = info.payload().downcast_ref::<String>() {
            s.clone()
        } else {
            "<non-string panic>".to_string()
        };
        let loc = info
            .location()
            .map(|l| format!("{}:{}", l.file(), l.line()))
            .unwrap_or_default();
        if guarded {
            LAST_PANIC.with(|p| *p.borrow_mut() = Some(format!("{} @ {}", msg, loc)));
        } else {
            default(info);
        }
    }));
}

thread_local! {
    static GUARD_DEPTH: RefCell<u32> = const { RefCell::new(0) };
    /// hash of the full event log of the current run (determinism self-test); None = off
    static EVLOG: RefCell<Option<crate::rng::Fnv>> = const { RefCell::new(None) };
}

pub fn evlog_start() {
    EVLOG.with(|e| *e.borrow_mut() = Some(crate::rng::Fnv::default()));
}

pub fn evlog_take() -> u64 {
    EVLOG.with(|e| e.borrow_mut().take().map(|f| f.0).unwrap_or(0))
}

#[inline]
fn evlog(build: Build, input: &[u8], what: impl FnOnce() -> String) {
    EVLOG.with(|e| {
        if let Some(f) = e.borrow_mut().as_mut() {
            f.write_str(build.name());
            f.write(input);
            f.write_str(&what());
        }
    });
}

/// Runs `f`, turning a panic into `Err(description)`.
pub fn guard<T>(f: impl FnOnce() -> T) -> Result<T, String> {
    GUARD_DEPTH.with(|d| *d.borrow_mut() += 1);
    let r = catch_unwind(AssertUnwindSafe(f));
    GUARD_DEPTH.with(|d| *d.borrow_mut() -= 1);
    match r {
        Ok(v) => Ok(v),
        Err(_) => Err(LAST_PANIC
            .with(|p| p.borrow_mut().take())
            .unwrap_or_else(|| "<panic>".into())),
    }
}

/// A node: one real parser instance of one build.
pub trait Node {
    fn build(&self) -> Build;
    /// `conv_result`: apply the `Result<AisSentence>` conversion (else the `Option` one)
    fn parse(&mut self, line: &[u8], decode: bool, conv_result: bool) -> Outcome;
    /// the outcome in the textual form the none-only binary prints (fidelity cross-check)
    fn parse_text(&mut self, line: &[u8], decode: bool) -> String;
    /// `{:?}` of the parser (its only state inspection seam)
    fn state(&self) -> String;
    /// process restart: nothing is durable
    fn restart(&mut self);
}

macro_rules! impl_build {
    ($modname:ident, $krate:ident, $build:expr) => {
        pub mod $modname {
            use super::*;
            use $krate::sentence::{AisFragments, AisParser, AisSentence};

            fn canon(s: &AisSentence) -> Sent {
                Sent {
                    talker: format!("{:?}", s.talker_id),
                    report: format!("{:?}", s.report_type),
                    n: s.num_fragments,
                    k: s.fragment_number,
                    id: s.message_id,
                    channel: s.channel,
                    data: s.data.iter().copied().collect(),
                    fill: s.fill_bit_count,
                    message_type: s.message_type,
                    // (a Debug impl is code of the crate too: a panic in it must not take the
                    // worker down - it becomes part of the rendered text, equal where it is equal)
                    message: s.message.as_ref().map(|m| match guard(|| format!("{:?}", m)) {
                        Ok(t) => t,
                        Err(p) => format!("<Debug of the message panicked: {}>", p),
                    }),
                }
            }

            fn canon_err(e: $krate::errors::Error) -> Outcome {
                match e {
                    $krate::errors::Error::Nmea { msg } => Outcome::ErrNmea(msg.to_string()),
                    $krate::errors::Error::Checksum { expected, found } => {
                        Outcome::ErrChecksum { expected, found }
                    }
                    // (a variant added later is an error value like the others)
                    #[allow(unreachable_patterns)]
                    other => Outcome::ErrNmea(format!("{:?}", other)),
                }
            }

            #[derive(Default)]
            pub struct N {
                p: AisParser,
            }

            impl N {
                pub fn new() -> Self {
                    N {
                        p: AisParser::new(),
                    }
                }
            }

            impl Node for N {
                fn build(&self) -> Build {
                    $build
                }
                fn parse(&mut self, line: &[u8], decode: bool, conv_result: bool) -> Outcome {
                    let out = self.parse_inner(line, decode, conv_result);
                    evlog($build, line, || format!("{}{}{:?}", decode, conv_result, out));
                    out
                }
                fn parse_text(&mut self, line: &[u8], decode: bool) -> String {
                    let p = &mut self.p;
                    match guard(move || p.parse(line, decode)) {
                        Err(_) => "Panic".to_string(),
                        Ok(Err($krate::errors::Error::Nmea { .. })) => "ErrNmea".to_string(),
                        Ok(Err($krate::errors::Error::Checksum { expected, found })) => {
                            format!("ErrChecksum {} {}", expected, found)
                        }
                        Ok(Ok(AisFragments::Complete(s))) => format!("Complete {:?}", s),
                        Ok(Ok(AisFragments::Incomplete(s))) => format!("Incomplete {:?}", s),
                    }
                }
                fn state(&self) -> String {
                    let p = &self.p;
                    guard(|| format!("{:?}", p)).unwrap_or_else(|e| format!("<Debug of the parser panicked: {}>", e))
                }
                fn restart(&mut self) {
                    evlog($build, b"", || "restart".to_string());
                    self.p = AisParser::new();
                }
            }

            impl N {
                fn parse_inner(&mut self, line: &[u8], decode: bool, conv_result: bool) -> Outcome {
                    let p = &mut self.p;
                    match guard(move || p.parse(line, decode)) {
                        Err(panic) => Outcome::Panic(panic),
                        Ok(Err(e)) => canon_err(e),
                        Ok(Ok(frag)) => {
                            let (complete, sent) = match &frag {
                                AisFragments::Complete(s) => (true, canon(s)),
                                AisFragments::Incomplete(s) => (false, canon(s)),
                            };
                            let converted: Option<AisSentence> = if conv_result {
                                let r: $krate::errors::Result<AisSentence> = frag.into();
                                r.ok()
                            } else {
                                frag.into()
                            };
                            let conv = match converted {
                                None => Conv::Nothing,
                                Some(s) => {
                                    if canon(&s) == sent {
                                        Conv::SomeSame
                                    } else {
                                        Conv::SomeDifferent
                                    }
                                }
                            };
                            if complete {
                                Outcome::Complete(sent, conv)
                            } else {
                                Outcome::Incomplete(sent, conv)
                            }
                        }
                    }
                }
            }

            pub fn unarmor(data: &[u8], fill: usize) -> ApiOutcome {
                let out = match guard(|| {
                    $krate::messages::unarmor(data, fill).map(|v| format!("{:?}", &v[..])).map_err(|e| format!("{:?}", e))
                }) {
                    Err(p) => ApiOutcome::Panic(p),
                    Ok(Ok(v)) => ApiOutcome::Ok(v),
                    Ok(Err(e)) => ApiOutcome::Err(e),
                };
                evlog($build, data, || format!("unarmor{}{:?}", fill, out));
                out
            }

            pub fn unarmor_raw(data: &[u8], fill: usize) -> Option<Vec<u8>> {
                match guard(|| $krate::messages::unarmor(data, fill)) {
                    Ok(Ok(v)) => Some(v.iter().copied().collect()),
                    _ => None,
                }
            }

            pub fn decode(unarmored: &[u8]) -> ApiOutcome {
                let out = match guard(|| {
                    $krate::messages::parse(unarmored).map(|m| format!("{:?}", m)).map_err(|e| format!("{:?}", e))
                }) {
                    Err(p) => ApiOutcome::Panic(p),
                    Ok(Ok(m)) => ApiOutcome::Ok(m),
                    Ok(Err(e)) => ApiOutcome::Err(e),
                };
                evlog($build, unarmored, || format!("decode{:?}", out));
                out
            }
        }
    };
}

impl_build!(b_std, ais_std, Build::Std);
impl_build!(b_alloc, ais_alloc, Build::Alloc);
impl_build!(b_none, ais_none, Build::None);

pub fn new_node(b: Build) -> Box<dyn Node> {
    match b {
        Build::Std => Box::new(b_std::N::new()),
        Build::Alloc => Box::new(b_alloc::N::new()),
        Build::None => Box::new(b_none::N::new()),
    }
}

pub fn api_unarmor(b: Build, data: &[u8], fill: usize) -> ApiOutcome {
    match b {
        Build::Std => b_std::unarmor(data, fill),
        Build::Alloc => b_alloc::unarmor(data, fill),
        Build::None => b_none::unarmor(data, fill),
    }
}

pub fn api_unarmor_raw(b: Build, data: &[u8], fill: usize) -> Option<Vec<u8>> {
    match b {
        Build::Std => b_std::unarmor_raw(data, fill),
        Build::Alloc => b_alloc::unarmor_raw(data, fill),
        Build::None => b_none::unarmor_raw(data, fill),
    }
}

pub fn api_decode(b: Build, unarmored: &[u8]) -> ApiOutcome {
    match b {
        Build::Std => b_std::decode(unarmored),
        Build::Alloc => b_alloc::decode(unarmored),
        Build::None => b_none::decode(unarmored),
    }
}

//! Prepares the repository's `src/bin/aisparser.rs` for `include!` inside a module of the
//! simulator: an `include!`d file cannot start with inner doc comments (`//!`, `/*!`) or inner
//! attributes (`#![..]`), which are legal at the top of a binary's root file. Those leading
//! lines - and only those - are turned into plain comments; every item is left as it is.
use std::io::Write;

fn main() {
    let repo = std::env::var("VERIF_REPO").unwrap_or_else(|_| "/repo".into());
    let src_path = format!("{}/src/bin/aisparser.rs", repo);
    println!("cargo:rerun-if-changed={}", src_path);
    println!("cargo:rerun-if-env-changed=VERIF_REPO");
    let src = std::fs::read_to_string(&src_path).unwrap_or_default();
    let mut out = String::new();
    let mut in_header = true;
    let mut in_block_doc = false;
    for line in src.lines() {
        let t = line.trim_start();
        if in_header {
            if in_block_doc {
                out.push_str("// ");
                out.push_str(line);
                out.push('\n');
                if t.contains("*/") {
                    in_block_doc = false;
                }
                continue;
            }
            if t.starts_with("//!") {
                out.push_str("// ");
                out.push_str(&t[3..]);
                out.push('\n');
                continue;
            }
            if t.starts_with("/*!") {
                out.push_str("// ");
                out.push_str(line);
                out.push('\n');
                if !t.contains("*/") {
                    in_block_doc = true;
                }
                continue;
            }
            if t.starts_with("#![") {
                out.push_str("// (inner attribute dropped for hosting) ");
                out.push_str(t);
                out.push('\n');
                continue;
            }
            if t.is_empty() || t.starts_with("//") {
                out.push_str(line);
                out.push('\n');
                continue;
            }
            in_header = false;
        }
        out.push_str(line);
        out.push('\n');
    }
    let dir = std::env::var("OUT_DIR").expect("OUT_DIR");
    let mut f = std::fs::File::create(format!("{}/aisparser_hosted.rs", dir)).expect("create");
    f.write_all(out.as_bytes()).expect("write");
}

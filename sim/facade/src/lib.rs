//! Facade with the extern name `ais`, used only to host the repository's *unmodified*
//! `src/bin/aisparser.rs` inside the simulator process.
//!
//! Everything the CLI reaches is the real `ais` crate (std build, compiled from the
//! repository's working tree as `ais_std`) except `lib::std::io`, the crate's own re-export
//! seam through which the CLI obtains stdin: here `stdin()` returns a scripted reader that
//! hands out a prepared byte stream in prepared chunk sizes and returns
//! `ErrorKind::Interrupted` at prepared points. It implements `std::io::BufRead`, so the
//! CLI's `.split(b'\n')` is std's real `read_until` loop.

pub use ais_std::errors;
pub use ais_std::messages;
pub use ais_std::sentence;
pub use ais_std::Result;
pub use ais_std::{AisFragments, AisParser};

pub mod lib {
    pub mod std {
        pub use ::std::{borrow, cmp, error, fmt, format, mem, result, str, string, vec};

        pub mod io {
            pub use ::std::io::*;

            pub fn stdin() -> super::super::super::sim_io::ScriptedStdin {
                super::super::super::sim_io::ScriptedStdin
            }
            pub fn stdout() -> super::super::super::sim_io::Captured {
                super::super::super::sim_io::Captured { err: false }
            }
            pub fn stderr() -> super::super::super::sim_io::Captured {
                super::super::super::sim_io::Captured { err: true }
            }
        }
    }
}

pub mod sim_io {
    use std::cell::RefCell;
    use std::io::{self, BufRead, Read, Write};

    /// One step of the I/O schedule
    #[derive(Clone, Copy, Debug, PartialEq, Eq)]
    pub enum Step {
        /// the next `fill_buf` exposes at most this many bytes (>= 1)
        Chunk(usize),
        /// the next `fill_buf` fails with `ErrorKind::Interrupted`
        Eintr,
    }

    #[derive(Default)]
    pub struct Script {
        pub data: Vec<u8>,
        pub pos: usize,
        pub steps: Vec<Step>,
        pub step: usize,
        /// bytes currently exposed by fill_buf and not yet consumed
        pub window: usize,
        pub stats: IoStats,
        pub out: Vec<u8>,
        pub err: Vec<u8>,
    }

    #[derive(Default, Clone, Debug)]
    pub struct IoStats {
        pub reads: u64,
        pub eintr: u64,
        pub eintr_mid_line: u64,
        pub one_byte_chunks: u64,
        pub chunk_ends_at_newline: u64,
        pub chunk_splits_crlf: u64,
        pub eof_reads: u64,
        pub stdin_opened: u64,
    }

    thread_local! {
        pub static SCRIPT: RefCell<Script> = RefCell::new(Script::default());
    }

    pub fn install(data: Vec<u8>, steps: Vec<Step>) {
        SCRIPT.with(|s| {
            *s.borrow_mut() = Script {
                data,
                steps,
                ..Script::default()
            }
        });
    }

    pub fn take() -> Script {
        SCRIPT.with(|s| std::mem::take(&mut *s.borrow_mut()))
    }

    pub fn push_out(bytes: &[u8]) {
        SCRIPT.with(|s| s.borrow_mut().out.extend_from_slice(bytes));
    }
    pub fn push_err(bytes: &[u8]) {
        SCRIPT.with(|s| s.borrow_mut().err.extend_from_slice(bytes));
    }

    pub struct ScriptedStdin;

    impl ScriptedStdin {
        pub fn lock(&self) -> ScriptedLock {
            SCRIPT.with(|s| s.borrow_mut().stats.stdin_opened += 1);
            ScriptedLock { buf: Vec::new() }
        }
        pub fn lines(self) -> io::Lines<ScriptedLock> {
            self.lock().lines()
        }
        pub fn read_line(&self, buf: &mut String) -> io::Result<usize> {
            self.lock().read_line(buf)
        }
    }

    pub struct ScriptedLock {
        buf: Vec<u8>,
    }

    impl Read for ScriptedLock {
        fn read(&mut self, out: &mut [u8]) -> io::Result<usize> {
            let avail = self.fill_buf()?;
            let n = avail.len().min(out.len());
            out[..n].copy_from_slice(&avail[..n]);
            self.consume(n);
            Ok(n)
        }
    }

    impl BufRead for ScriptedLock {
        fn fill_buf(&mut self) -> io::Result<&[u8]> {
            let r = SCRIPT.with(|s| {
                let mut s = s.borrow_mut();
                if s.window == 0 {
                    s.stats.reads += 1;
                    if s.pos >= s.data.len() {
                        s.stats.eof_reads += 1;
                        return Ok((0usize, 0usize));
                    }
                    let step = if s.step < s.steps.len() {
                        let st = s.steps[s.step];
                        s.step += 1;
                        st
                    } else {
                        Step::Chunk(usize::MAX)
                    };
                    match step {
                        Step::Eintr => {
                            s.stats.eintr += 1;
                            if s.pos > 0 && s.data[s.pos - 1] != b'\n' {
                                s.stats.eintr_mid_line += 1;
                            }
                            return Err(io::Error::new(io::ErrorKind::Interrupted, "EINTR (simulated)"));
                        }
                        Step::Chunk(n) => {
                            let n = n.max(1).min(s.data.len() - s.pos);
                            s.window = n;
                            if n == 1 {
                                s.stats.one_byte_chunks += 1;
                            }
                            let end = s.pos + n;
                            if s.data[end - 1] == b'\n' {
                                s.stats.chunk_ends_at_newline += 1;
                            }
                            if s.data[end - 1] == b'\r' && end < s.data.len() && s.data[end] == b'\n' {
                                s.stats.chunk_splits_crlf += 1;
                            }
                        }
                    }
                }
                Ok((s.pos, s.window))
            });
            match r {
                Err(e) => Err(e),
                Ok((pos, win)) => {
                    self.buf.clear();
                    SCRIPT.with(|s| {
                        let s = s.borrow();
                        self.buf.extend_from_slice(&s.data[pos..pos + win]);
                    });
                    Ok(&self.buf[..])
                }
            }
        }

        fn consume(&mut self, amt: usize) {
            SCRIPT.with(|s| {
                let mut s = s.borrow_mut();
                let amt = amt.min(s.window);
                s.pos += amt;
                s.window -= amt;
            });
        }
    }

    /// captured stdout / stderr handle (for CLI variants that write through `io::stdout()`)
    pub struct Captured {
        pub err: bool,
    }

    impl Captured {
        pub fn lock(&self) -> Captured {
            Captured { err: self.err }
        }
    }

    impl Write for Captured {
        fn write(&mut self, buf: &[u8]) -> io::Result<usize> {
            if self.err {
                push_err(buf)
            } else {
                push_out(buf)
            }
            Ok(buf.len())
        }
        fn flush(&mut self) -> io::Result<()> {
            Ok(())
        }
    }
}

#!/usr/bin/env python3
"""tools/design_rows.py <name>... : prints DESIGN.md section 10.2 table rows for seeded changes from their meta.json"""
import json, sys
for name in sys.argv[1:]:
    m = json.load(open(f'/verif/seeded/{name}/meta.json'))
    tgt = m['property_broken']
    needs = (m.get('needs_to_manifest') or '').replace('\n', ' ').replace('|', '/')
    if len(needs) > 140: needs = needs[:140]
    def fmt(lst):
        return ' '.join(f'**{c}**' if c == tgt else c for c in sorted(lst)) if lst else '**missed**'
    first = m.get('caught_by_first_run', [])
    now = m.get('latest_matrix', {}).get('caught_by', first)
    print(f"| `{name}` | {tgt} | {needs} | {fmt(first)} | {fmt(now)} | {m.get('strengthened','')} |")

#!/usr/bin/env bash
# tools/run_controls.sh <tag> <names...> : behaviour-CHANGING but property-conforming changes (negative
# controls written by sub-agents, /verif/controls/<name>/) against every check; none may fire.
TAG="$1"; shift
SNAP="/tmp/verif-snap-ctl-$TAG"; rm -rf "$SNAP"; mkdir -p "$SNAP"
rsync -a --exclude target --exclude .git --exclude replays /verif/ "$SNAP/"
trap 'rm -rf "$SNAP"' EXIT
export MUT_WT="/tmp/aisverif-ctl-$TAG" MUT_TARGET="/tmp/aisverif-ctl-$TAG-target"
OUT="/verif/controls/results-$TAG.txt"; : > "$OUT"
for name in "$@"; do
  d="/verif/controls/$name/patch.diff"; [ -f "$d" ] || continue
  echo "== $name" >> "$OUT"
  "$SNAP/tools/run_mutant.sh" "$d" ${CHECKS:-C01 C02 C05 C06 C17 C18 C20} 2>&1 | cut -c1-400 >> "$OUT"
done
"$SNAP/tools/run_mutant.sh" --clean
echo done >> "$OUT"

#!/usr/bin/env bash
# tools/run_seeded.sh [names...] : every confirmed seeded change against every check;
# appends to /verif/seeded/results.txt. Uses its own scratch worktree and target directory.
# work from a snapshot of /verif, so that editing the sources meanwhile does not disturb the batch
SNAP="/tmp/verif-snap-$$"; rm -rf "$SNAP"; mkdir -p "$SNAP"
rsync -a --exclude target --exclude .git --exclude replays /verif/ "$SNAP/"
trap 'rm -rf "$SNAP"' EXIT
export MUT_WT="${MUT_WT:-/tmp/aisverif-seed}" MUT_TARGET="${MUT_TARGET:-/tmp/aisverif-seed-target}"
OUT="${OUT:-/verif/seeded/results.txt}"
names=("$@"); [ ${#names[@]} -eq 0 ] && names=($(ls -d /verif/seeded/*/ | xargs -n1 basename))
for name in "${names[@]}"; do
  d="/verif/seeded/$name/patch.diff"; [ -f "$d" ] || continue
  echo "== $name" | tee -a "$OUT"
  "$SNAP/tools/run_mutant.sh" "$d" ${CHECKS:-C01 C02 C05 C06 C17 C18 C20} 2>&1 | cut -c1-260 | tee -a "$OUT"
done
"$SNAP/tools/run_mutant.sh" --clean

#!/usr/bin/env bash
# tools/run_all_mutants.sh [dir-with-*.diff] : every mutant against every check; writes <dir>/results.txt
# work from a snapshot of /verif, so that editing the sources meanwhile does not disturb the batch
SNAP="/tmp/verif-snap-$$"; rm -rf "$SNAP"; mkdir -p "$SNAP"
rsync -a --exclude target --exclude .git --exclude replays /verif/ "$SNAP/"
trap 'rm -rf "$SNAP"' EXIT
DIR="${1:-/verif/sensitivity}"
OUT="${OUT:-$DIR/results.txt}"
: > "$OUT"
for d in "$DIR"/*.diff; do
  name="$(basename "$d" .diff)"
  echo "== $name" | tee -a "$OUT"
  "$SNAP/tools/run_mutant.sh" "$d" ${CHECKS:-C01 C02 C05 C06 C17 C18 C20} 2>&1 | cut -c1-260 | tee -a "$OUT"
done
"$SNAP/tools/run_mutant.sh" --clean
echo done >> "$OUT"

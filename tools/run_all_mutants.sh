#!/usr/bin/env bash
# tools/run_all_mutants.sh [dir-with-*.diff] : every mutant against every check; writes <dir>/results.txt
DIR="${1:-/verif/sensitivity}"
OUT="$DIR/results.txt"
: > "$OUT"
for d in "$DIR"/*.diff; do
  name="$(basename "$d" .diff)"
  echo "== $name" | tee -a "$OUT"
  /verif/tools/run_mutant.sh "$d" C01 C02 C05 C06 C17 C18 C20 2>&1 | cut -c1-260 | tee -a "$OUT"
done
/verif/tools/run_mutant.sh --clean
echo done >> "$OUT"

#!/usr/bin/env python3
"""tools/summarise.py <results.txt> : one line per mutant: which checks exited 1 (violation), 2+ (other)"""
import re,sys,json,os
def parse(path):
    res={};cur=None
    for l in open(path):
        l=l.rstrip('\n')
        if l.startswith('== '): cur=l[3:]; res[cur]={'baseline':None,'checks':{}}
        elif l.startswith('baseline-tests='): res[cur]['baseline']=l.split('=')[1]
        elif l.startswith('check='):
            m=re.match(r'check=(\S+) exit=(\d+) violations=(\d+)\s*(.*)',l)
            res[cur]['checks'][m.group(1)]=(int(m.group(2)),m.group(4)[:160])
    return res
if __name__=='__main__':
    r=parse(sys.argv[1])
    idx={}
    p=os.path.join(os.path.dirname(sys.argv[1]),'index.json')
    if os.path.exists(p): idx=json.load(open(p))
    for n,x in r.items():
        tgt=idx.get(n,{}).get('property') or n.split('-')[0].upper()
        v=[k for k,e in x['checks'].items() if e[0]==1]
        other=[f"{k}:exit{e[0]}" for k,e in x['checks'].items() if e[0] not in (0,1)]
        print(f"{n:42s} base={str(x['baseline']):5s} caught={' '.join(v):28s} {'TARGET-QUIET' if tgt not in v else ''} {' '.join(other)}")

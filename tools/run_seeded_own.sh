#!/usr/bin/env bash
# tools/run_seeded_own.sh <tag> <names...> : every given seeded change against the check of the
# property it was aimed at (quick tier), from a snapshot of /verif; appends to
# /verif/seeded/results-own-<tag>.txt. Several instances with different tags may run side by side.
TAG="$1"; shift
SNAP="/tmp/verif-snap-own-$TAG"; rm -rf "$SNAP"; mkdir -p "$SNAP"
rsync -a --exclude target --exclude .git --exclude replays /verif/ "$SNAP/"
trap 'rm -rf "$SNAP"' EXIT
export MUT_WT="/tmp/aisverif-own-$TAG" MUT_TARGET="/tmp/aisverif-own-$TAG-target" SKIP_BASELINE=1
OUT="/verif/seeded/results-own-$TAG.txt"; : > "$OUT"
for name in "$@"; do
  d="/verif/seeded/$name/patch.diff"; [ -f "$d" ] || continue
  own="${name%%-*}"
  echo "== $name" >> "$OUT"
  "$SNAP/tools/run_mutant.sh" "$d" "$own" 2>&1 | cut -c1-260 >> "$OUT"
done
"$SNAP/tools/run_mutant.sh" --clean
echo done >> "$OUT"

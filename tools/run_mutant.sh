#!/usr/bin/env bash
# tools/run_mutant.sh <patch.diff> <check-id>...   (development aid, not a registered check)
# Applies a patch to a scratch worktree of /repo (at HEAD, or at the commit named by MUT_BASE) (outside /repo and /verif), confirms the
# baseline tests still pass, runs the given checks against it, prints one line per check,
# and removes the worktree again. Build output is kept in $MUT_TARGET between calls of a
# batch and removed by `tools/run_mutant.sh --clean`.
set -u
VERIF_DIR="$(cd "$(dirname "${BASH_SOURCE[0]}")/.." && pwd)"
WT="${MUT_WT:-/tmp/aisverif-mut}"
MUT_TARGET="${MUT_TARGET:-/tmp/aisverif-mut-target}"
if [ "${1:-}" = "--clean" ]; then
  git -C /repo worktree remove --force "$WT" 2>/dev/null; rm -rf "$WT" "$MUT_TARGET"; git -C /repo worktree prune; exit 0
fi
PATCH="$(readlink -f "$1")"; shift
git -C /repo worktree remove --force "$WT" 2>/dev/null; rm -rf "$WT"; git -C /repo worktree prune
git -C /repo worktree add --detach "$WT" "${MUT_BASE:-HEAD}" >/dev/null 2>&1 || { echo "cannot create worktree"; exit 2; }
if ! git -C "$WT" apply "$PATCH"; then echo "PATCH DOES NOT APPLY: $PATCH"; git -C /repo worktree remove --force "$WT"; exit 2; fi
base="skipped"
if [ "${SKIP_BASELINE:-0}" != 1 ]; then
  if ( cd "$WT" && CARGO_TARGET_DIR="$MUT_TARGET/baseline" cargo test --offline >"$MUT_TARGET.baseline.log" 2>&1 ); then base="pass"; else base="FAIL"; fi
fi
echo "baseline-tests=$base"
for id in "$@"; do
  out="$(VERIF_REPO="$WT" VERIF_TARGET="$MUT_TARGET" AISSIM_REPLAY_DIR="$MUT_TARGET/replays" "$VERIF_DIR/check" "$id" --no-evidence ${MUT_ARGS:-} 2>&1)"; rc=$?
  v="$(printf '%s\n' "$out" | grep -c '^VIOLATION')"
  first="$(printf '%s\n' "$out" | grep -A1 '^VIOLATION' | head -2 | tail -1 | cut -c1-160)"
  echo "check=$id exit=$rc violations=$v $first"
done
git -C /repo worktree remove --force "$WT" 2>/dev/null; rm -rf "$WT"; git -C /repo worktree prune

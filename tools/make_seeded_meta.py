#!/usr/bin/env python3
"""tools/make_seeded_meta.py <results.txt> <origin text> <name>... : writes seeded/<name>/meta.json from the
sub-agent's agent_meta.json and the first-run matrix in <results.txt> (development aid)."""
import json, sys, os, subprocess
sys.path.insert(0, os.path.dirname(__file__))
from summarise import parse
res = parse(sys.argv[1]); origin = sys.argv[2]
head = subprocess.run(['git','-C','/repo','rev-parse','--short','HEAD'],capture_output=True,text=True).stdout.strip()
for name in sys.argv[3:]:
    d = f'/verif/seeded/{name}'
    a = json.load(open(f'{d}/agent_meta.json'))
    r = res.get(name, {'checks': {}})
    first = {k: {'exit': e[0], 'first': e[1]} for k, e in r['checks'].items()}
    caught = [k for k, e in r['checks'].items() if e[0] == 1]
    target = a.get('property_broken', name.split('-')[0])
    demo = 'demo.rs' if os.path.exists(f'{d}/demo.rs') else 'demo.sh'
    meta = {
        'property_broken': target,
        'summary': a.get('summary'),
        'needs_to_manifest': a.get('needs_to_manifest'),
        'why_each_edit_alone_is_harmless': a.get('why_each_edit_alone_is_harmless'),
        'files': a.get('files'),
        'demo_flags': a.get('demo_flags', ''),
        'origin': origin,
        'confirmed_by_me': {
            'how': 'tools/verify_seeded.sh: git apply --check on a clean scratch worktree; cargo build in std / alloc / no-alloc configurations; cargo test --offline (59 unit tests + doctest) passes with the change; demonstration passes on HEAD and fails with the change',
            'result': 'all confirmed'},
        'demonstration': f'{demo} (' + ('place as tests/demo.rs; cargo test --offline ' + a.get('demo_flags', '') + ' --test demo' if demo == 'demo.rs' else 'AISPARSER=<built binary> bash demo.sh; exit 0 = correct behaviour') + ')',
        'checks_run': {
            'how': 'tools/run_seeded.sh -> tools/run_mutant.sh: patch applied to a scratch worktree, every registered check run against it with VERIF_REPO=<worktree> (quick tier, --no-evidence)',
            'first_run_results': first},
        'caught_by_first_run': caught,
        'caught_by_target_check_first_run': target in caught,
        'applies_to_repo_head': head,
    }
    json.dump(meta, open(f'{d}/meta.json', 'w'), indent=1)
    print(name, 'caught by', caught)

#!/usr/bin/env bash
# tools/run_negatives.sh <tag> <check>... : the given checks against EVERY negative control (refactors/,
# controls/, sensitivity/refactor-*.diff, sensitivity/c18-alloc-error-text.diff); none may fire.
# Writes /verif/controls/results-negatives-<tag>.txt. Superseded controls (no patch.diff) are skipped.
TAG="$1"; shift
SNAP="/tmp/verif-snap-neg-$TAG"; rm -rf "$SNAP"; mkdir -p "$SNAP"
rsync -a --exclude target --exclude .git --exclude replays /verif/ "$SNAP/"
export MUT_WT="/tmp/aisverif-neg-$TAG" MUT_TARGET="/tmp/aisverif-neg-$TAG-target" SKIP_BASELINE=1
OUT="/verif/controls/results-negatives-$TAG.txt"; echo "# checks $* against every negative control, /repo $(git -C /repo rev-parse --short HEAD)" > "$OUT"
for d in /verif/refactors/*/patch.diff /verif/controls/*/patch.diff /verif/sensitivity/refactor-*.diff /verif/sensitivity/c18-alloc-error-text.diff; do
  [ -f "$d" ] || continue
  name="$(basename "$(dirname "$d")")"; case "$d" in *sensitivity*) name="$(basename "$d" .diff)";; esac
  echo "== $name" >> "$OUT"
  "$SNAP/tools/run_mutant.sh" "$d" "$@" 2>&1 | cut -c1-300 >> "$OUT"
done
"$SNAP/tools/run_mutant.sh" --clean; rm -rf "$SNAP"; echo done >> "$OUT"

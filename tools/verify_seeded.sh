#!/usr/bin/env bash
# tools/verify_seeded.sh <deliver-dir> <seeded-name>
# Confirms a sub-agent's seeded change independently (applies, builds in three configurations,
# baseline tests pass, demo fails with / passes without the change), then copies it to
# /verif/seeded/<seeded-name>/ with a record of what was run. Scratch worktree is removed.
set -u
SRC="$(readlink -f "$1")"; NAME="$2"
WT=/tmp/aisverif-seedchk; TGT=/tmp/aisverif-seedchk-target
export CARGO_NET_OFFLINE=true CARGO_TARGET_DIR="$TGT"
git -C /repo worktree remove --force "$WT" 2>/dev/null; rm -rf "$WT"; git -C /repo worktree prune
git -C /repo worktree add --detach "$WT" HEAD >/dev/null 2>&1 || exit 2
cd "$WT" || exit 2
res() { if "$@" >/dev/null 2>&1; then echo true; else echo false; fi; }
demo_cmd() { # runs the demo; exit 0 = demo passes
  if [ -f "$SRC/demo.rs" ]; then
    mkdir -p tests && cp "$SRC/demo.rs" tests/demo.rs
    local flags; flags="$(grep -oE -- '--no-default-features( --features alloc)?' "$SRC/meta.json" | head -1)"
    cargo test --offline $flags --test demo
  else
    # the script locates the crate root relative to itself (deliver/<x>/demo.sh)
    mkdir -p deliver/x && cp "$SRC/demo.sh" deliver/x/demo.sh
    ( unset CARGO_TARGET_DIR; cargo build --offline --bin aisparser >/dev/null 2>&1; AISPARSER="$PWD/target/debug/aisparser" bash deliver/x/demo.sh )
  fi
}
applies=$(res git apply --check "$SRC/patch.diff")
demo_without=$(res demo_cmd)
git apply "$SRC/patch.diff"
c_std=$(res cargo build --offline)
c_alloc=$(res cargo build --offline --no-default-features --features alloc --lib)
c_none=$(res cargo build --offline --no-default-features --lib)
rm -rf tests/demo.rs deliver
tests=$(res cargo test --offline)
demo_with=$(res demo_cmd)
cd /; git -C /repo worktree remove --force "$WT" 2>/dev/null; rm -rf "$WT" "$TGT"; git -C /repo worktree prune
echo "applies=$applies compiles_std=$c_std compiles_alloc=$c_alloc compiles_none=$c_none existing_tests_pass=$tests demo_passes_without=$demo_without demo_passes_with=$demo_with"
if [ "$applies$c_std$c_alloc$c_none$tests$demo_without$demo_with" = "truetruetruetruetruetruefalse" ]; then
  DEST="${DEST_ROOT:-/verif/seeded}"; mkdir -p "$DEST/$NAME"
  cp "$SRC/patch.diff" "$DEST/$NAME/patch.diff"
  [ -f "$SRC/demo.rs" ] && cp "$SRC/demo.rs" "$DEST/$NAME/demo.rs"
  [ -f "$SRC/demo.sh" ] && cp "$SRC/demo.sh" "$DEST/$NAME/demo.sh"
  cp "$SRC/meta.json" "$DEST/$NAME/agent_meta.json"
  echo "CONFIRMED $NAME"
else
  echo "NOT CONFIRMED $NAME"
fi

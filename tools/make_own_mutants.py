#!/usr/bin/env python3
"""Generates the hand-written sensitivity mutants (DESIGN.md section 9) as patch files under
/verif/sensitivity/. Each is an exact-string edit of /repo's HEAD made in a scratch worktree."""
import subprocess, os, sys, json, shutil
WT='/tmp/aisverif-mkmut'
OUT='/verif/sensitivity'
S='src/sentence.rs'; M='src/messages/mod.rs'; P='src/messages/parsers.rs'; N='src/messages/nom_noalloc.rs'; B='src/bin/aisparser.rs'
MUT = {
 # name: (property, [(file, old, new)...], what)
 'c01-unarmor-spill-ge2': ('C01', [(M, 'if offset_bit > 2 {', 'if offset_bit >= 2 {')], 'unarmor writes the spill byte also when the character ends exactly at a byte boundary: index out of bounds for payloads whose length is 4k+... characters'),
 'c01-revert-u8-underflow': ('C01', [(S, 'if self.fragment_number.checked_add(1) != Some(ais_sentence.fragment_number) {', 'if ais_sentence.fragment_number - self.fragment_number != 1 {')], 'reverts fix D1'),
 'c01-revert-unarmor-empty': ('C01', [(M, 'if fill_bits != 0 && byte_count != 0 {', 'if fill_bits != 0 {')], 'reverts fix D5'),
 'c01-bool-from-two-bits': ('C01', [('src/messages/addressed_safety_related.rs', "let (data, retransmit) = map(take_bits(1u8), u8_to_bool)(data)?;\n        let (data, _spare) = take_bits::<_, u8, _, _>(1u8)(data)?;", "let (data, retransmit) = map(take_bits(2u8), |v: u8| u8_to_bool(v >> 1 | (v & 1) << 1))(data)?;")], 'retransmit flag read together with the spare bit: a set spare bit reaches unreachable!()'),
 'c01-noalloc-many-inclusive': ('C01', [(N, 'for count in 0..MAX {', 'for count in 0..=MAX {')], 'no-alloc many_m_n loops once too often: push_unchecked into a full Vec (5th acknowledgement)'),
 'c02-skip-gate-for-fragments': ('C02', [(S, 'Self::check_checksum(data, checksum)?;', 'if !ais_sentence.is_fragment() {\n            Self::check_checksum(data, checksum)?;\n        }')], 'checksum gate bypassed on the fragment path'),
 'c02-compare-7-bits': ('C02', [(S, 'if expected_checksum != received_checksum {', 'if expected_checksum & 0x7f != received_checksum & 0x7f {')], 'top bit of the checksum ignored'),
 'c02-swap-expected-found': ('C02', [(S, 'expected: expected_checksum,\n                found: received_checksum,', 'expected: received_checksum,\n                found: expected_checksum,')], 'error carries the two values swapped'),
 'c02-gate-after-reset': ('C02', [(S, "        Self::check_checksum(data, checksum)?;\n        if ais_sentence.has_more() {\n            if ais_sentence.fragment_number == 1 {\n                self.message_id = ais_sentence.message_id;\n                self.fragment_number = 0;\n                self.data = AisRawData::default();\n            }\n", "        if ais_sentence.has_more() && ais_sentence.fragment_number == 1 {\n            self.message_id = ais_sentence.message_id;\n            self.fragment_number = 0;\n            self.data = AisRawData::default();\n        }\n        Self::check_checksum(data, checksum)?;\n        if ais_sentence.has_more() {\n")], 'state reset of an opener performed before the checksum gate (a corrupted opener kills the open group) - a C17/C05 break, not a C02 one'),
 'c05-no-clear-on-opener': ('C05', [(S, '                self.data = AisRawData::default();\n            }\n            self.verify', '            }\n            self.verify')], 'payload of an abandoned group is not cleared when a new group opens'),
 'c05-option-some-for-incomplete': ('C05', [(S, 'AisFragments::Incomplete(_) => None,', 'AisFragments::Incomplete(sentence) => Some(sentence),')], 'Option conversion yields the sentence for Incomplete too'),
 'c05-reset-on-every-k1': ('C05', [(S, "        if ais_sentence.has_more() {\n            if ais_sentence.fragment_number == 1 {\n                self.message_id = ais_sentence.message_id;\n                self.fragment_number = 0;\n                self.data = AisRawData::default();\n            }\n", "        if ais_sentence.fragment_number == 1 {\n            self.message_id = ais_sentence.message_id;\n            self.fragment_number = 0;\n            self.data = AisRawData::default();\n        }\n        if ais_sentence.has_more() {\n")], 'state reset on every fragment number 1, including unfragmented 1-of-1 sentences'),
 'c05-prepend': ('C05', [(S, "        #[cfg(any(feature = \"std\", feature = \"alloc\"))]\n        self.data.extend_from_slice(&ais_sentence.data);\n", "        #[cfg(any(feature = \"std\", feature = \"alloc\"))]\n        {\n            let mut d = ais_sentence.data.clone();\n            d.extend_from_slice(&self.data);\n            self.data = d;\n        }\n")], 'fragments concatenated in reverse order'),
 'c06-no-id-check': ('C06', [(S, '        if self.message_id != ais_sentence.message_id {\n            return Err("Message ID out of sequence".into());\n        }\n', '')], 'sequence id not compared'),
 'c06-revert-close-on-delivery': ('C06', [(S, '                self.message_id = None;\n                self.fragment_number = 0;\n            }\n            if decode', '            }\n            if decode')], 'reverts fix D2'),
 'c06-accept-skips': ('C06', [(S, 'if self.fragment_number.checked_add(1) != Some(ais_sentence.fragment_number) {', 'if ais_sentence.fragment_number <= self.fragment_number {')], 'any higher fragment number accepted (lost fragments skipped silently)'),
 'c06-id-compared-only-when-both-present': ('C06', [(S, 'if self.message_id != ais_sentence.message_id {', 'if self.message_id.is_some() && ais_sentence.message_id.is_some() && self.message_id != ais_sentence.message_id {')], 'a fragment without id continues any group and vice versa'),
 'c17-number-stored-before-check': ('C17', [(S, "        if self.fragment_number.checked_add(1) != Some(ais_sentence.fragment_number) {\n            return Err(\"Fragment numbers out of sequence\".into());\n        }\n", "        let previous = self.fragment_number;\n        self.fragment_number = ais_sentence.fragment_number;\n        if previous.checked_add(1) != Some(ais_sentence.fragment_number) {\n            return Err(\"Fragment numbers out of sequence\".into());\n        }\n"), (S, "        self.fragment_number = ais_sentence.fragment_number;\n        Ok(())", "        Ok(())")], 'fragment number stored before the sequencing check: a rejected fragment leaves a trace'),
 'c17-clear-on-checksum-error': ('C17', [(S, 'Self::check_checksum(data, checksum)?;', 'if let Err(e) = Self::check_checksum(data, checksum) {\n            self.data = AisRawData::default();\n            return Err(e);\n        }')], 'accumulated payload dropped whenever a line fails its checksum'),
 'c17-static-scratch': ('C17', [(S, "    fn verify_and_extend_data(&mut self, ais_sentence: &AisSentence) -> Result<()> {\n        if self.message_id != ais_sentence.message_id {", "    fn verify_and_extend_data(&mut self, ais_sentence: &AisSentence) -> Result<()> {\n        static LAST_ID: core::sync::atomic::AtomicU16 = core::sync::atomic::AtomicU16::new(0xffff);\n        let mine = ais_sentence.message_id.map(|v| v as u16).unwrap_or(0x100);\n        if ais_sentence.fragment_number == 1 {\n            LAST_ID.store(mine, core::sync::atomic::Ordering::Relaxed);\n        }\n        if LAST_ID.load(core::sync::atomic::Ordering::Relaxed) != mine {\n            return Err(\"Message ID out of sequence\".into());\n        }\n        if self.message_id != ais_sentence.message_id {")], 'id of the open group additionally cached in a static shared by all parser instances'),
 'c18-noalloc-many-min-inclusive': ('C18', [(N, 'if count < min {', 'if count <= min {')], 'no-alloc many_m_n demands one element more than std'),
 'c18-noalloc-no-trim-end': ('C18', [(P, "val.trim_start().trim_end_matches('@').trim_end().into(),", "val.trim_start().trim_end_matches('@').into(),")], 'no-alloc text keeps trailing blanks'),
 'c18-noalloc-binary-64': ('C18', [('src/messages/binary_broadcast_message.rs', 'const MAX_DATA_SIZE_BYTES: usize = 119;', 'const MAX_DATA_SIZE_BYTES: usize = 64;')], 'no-alloc type 8 rejects binary data above 64 bytes'),
 'c18-revert-abandon-group': ('C18', [(S, "        if self.data.extend_from_slice(&ais_sentence.data).is_err() {\n            // The group does not fit: abandon it, rather than deliver it with a hole later\n            self.message_id = None;\n            self.fragment_number = 0;\n            self.data.clear();\n            return Err(Error::from(\"Vec is full on extend_from_slice\"));\n        }\n        self.fragment_number = ais_sentence.fragment_number;", "        self.data\n            .extend_from_slice(&ais_sentence.data)\n            .map_err(|_| Error::from(\"Vec is full on extend_from_slice\"))?;"),
                                           (S, "        #[cfg(any(feature = \"std\", feature = \"alloc\"))]\n        self.data.extend_from_slice(&ais_sentence.data);\n", "        self.fragment_number = ais_sentence.fragment_number;\n        #[cfg(any(feature = \"std\", feature = \"alloc\"))]\n        self.data.extend_from_slice(&ais_sentence.data);\n")], 'reverts fix D4'),
 'c18-alloc-error-text': ('C18', [(S, 'return Err("Fragment numbers out of sequence".into());', '#[cfg(feature = "std")]\n            return Err("Fragment numbers out of sequence".into());\n            #[cfg(not(feature = "std"))]\n            return Err("Fragment number out of sequence".into());')], 'alloc build words one error differently from std'),
 'c20-revert-stderr-utf8': ('C20', [(B, 'lib::std::string::String::from_utf8_lossy(&line),', 'lib::std::str::from_utf8(&line).unwrap(),')], 'reverts fix D6 on the stderr path'),
 'c20-print-incomplete': ('C20', [(B, 'if let AisFragments::Complete(sentence) = sentence {', 'if let AisFragments::Complete(sentence) | AisFragments::Incomplete(sentence) = sentence {')], 'incomplete fragments produce a stdout record'),
 'c20-swap-streams': ('C20', [(B, '                    eprintln!(', '                    println!(')], 'rejected lines reported on stdout'),
 'c20-split-cr': ('C20', [(B, ".split(b'\\n')", ".split(b'\\r')")], 'input split at CR instead of LF'),
 'c20-stop-at-empty-line': ('C20', [(B, '.map(|line| line.unwrap())', '.map(|line| line.unwrap())\n            .take_while(|line| !line.is_empty())')], 'processing stops at the first empty line'),
}
def sh(*a, **k): return subprocess.run(a, check=True, capture_output=True, text=True, **k).stdout
subprocess.run(['git','-C','/repo','worktree','remove','--force',WT],capture_output=True); shutil.rmtree(WT,ignore_errors=True); sh('git','-C','/repo','worktree','prune')
sh('git','-C','/repo','worktree','add','--detach',WT,'HEAD')
os.makedirs(OUT,exist_ok=True)
index={}
for name,(prop,edits,what) in MUT.items():
    sh('git','-C',WT,'checkout','--','.')
    ok=True
    for f,old,new in edits:
        p=os.path.join(WT,f); s=open(p).read()
        if s.count(old)<1:
            print('EDIT DOES NOT MATCH',name,f); ok=False; break
        s=s.replace(old,new,1); open(p,'w').write(s)
    if not ok: continue
    d=sh('git','-C',WT,'diff')
    open(os.path.join(OUT,name+'.diff'),'w').write(d)
    index[name]={'property':prop,'what':what}
json.dump(index,open(os.path.join(OUT,'index.json'),'w'),indent=1)
sh('git','-C',WT,'checkout','--','.')
subprocess.run(['git','-C','/repo','worktree','remove','--force',WT]); sh('git','-C','/repo','worktree','prune')
print(len(index),'mutants written')

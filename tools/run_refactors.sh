#!/usr/bin/env bash
# tools/run_refactors.sh [names...] : behaviour-preserving changes (negative controls) against
# every check; none may fire. Writes /verif/refactors/results.txt.
SNAP="/tmp/verif-snap-$$"; rm -rf "$SNAP"; mkdir -p "$SNAP"
rsync -a --exclude target --exclude .git --exclude replays /verif/ "$SNAP/"
trap 'rm -rf "$SNAP"' EXIT
export MUT_WT=/tmp/aisverif-ref MUT_TARGET=/tmp/aisverif-ref-target
OUT="${OUT:-/verif/refactors/results.txt}"
names=("$@"); [ ${#names[@]} -eq 0 ] && { names=($(ls -d /verif/refactors/*/ | xargs -n1 basename)); : > "$OUT"; }
for name in "${names[@]}"; do
  d="/verif/refactors/$name/patch.diff"; [ -f "$d" ] || continue
  echo "== $name" | tee -a "$OUT"
  "$SNAP/tools/run_mutant.sh" "$d" ${CHECKS:-C01 C02 C05 C06 C17 C18 C20} 2>&1 | cut -c1-260 | tee -a "$OUT"
done
"$SNAP/tools/run_mutant.sh" --clean

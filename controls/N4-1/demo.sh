#!/bin/sh
# Pins the original record format of aisparser:
#   stdout:  "<input line, lossily decoded, Debug-quoted>"<TAB><Debug of the decoded message>
#   stderr:  "<input line, lossily decoded, Debug-quoted>"<TAB><Debug of the error>
# Usage: AISPARSER=/path/to/aisparser sh demo.sh
: "${AISPARSER:?set AISPARSER to the path of the aisparser binary}"
d=$(mktemp -d) || exit 2
trap 'rm -rf "$d"' EXIT

printf '!AIVDM,1,1,,A,403OtVAv6s5l1o?I``E`4I?02<34,0*21\r\n\n!AIVDM,1,1,,A,403OtVAv6s5l1o?I``E`4I?02<34,0*22\nga\377rbage\n!AIVDM,2,1,1,B,53`soB8000010KSOW<0P4eDp4l6000000000000U0p<24t@P05H3S833CDP00000,0*78\n!AIVDM,2,2,1,B,0000000,2*26\n' > "$d/in"

"$AISPARSER" < "$d/in" > "$d/out" 2> "$d/err"
status=$?
fail=0
[ "$status" -eq 0 ] || { echo "exit status $status"; fail=1; }

cat > "$d/out.expected" <<'EOT'
"!AIVDM,1,1,,A,403OtVAv6s5l1o?I``E`4I?02<34,0*21\r"	Some(BaseStationReport(BaseStationReport { message_type: 4, repeat_indicator: 0, mmsi: 3669145, year: Some(2017), month: Some(11), day: Some(22), hour: 5, minute: Some(52), second: Some(1), fix_quality: Dgps, longitude: Some(-122.46483), latitude: Some(37.7943), epfd_type: None, raim: true, radio_status: Sotdma(SotdmaMessage { sync_state: UtcDirect, slot_timeout: 3, sub_message: ReceivedStations(196) }) }))
"!AIVDM,2,2,1,B,0000000,2*26"	Some(StaticAndVoyageRelatedData(StaticAndVoyageRelatedData { message_type: 5, repeat_indicator: 0, mmsi: 244250440, ais_version: 2, imo_number: 0, callsign: "PF8793", vessel_name: "HAKUNAMA", ship_type: Some(PleasureCraft), dimension_to_bow: 7, dimension_to_stern: 12, dimension_to_port: 2, dimension_to_starboard: 4, epfd_type: None, eta_month_utc: Some(1), eta_day_utc: Some(1), eta_hour_utc: 0, eta_minute_utc: Some(0), draught: 2.1, destination: "NL LMMR", dte: Ready }))
EOT
# the fourth stderr record echoes the invalid byte 0xff as U+FFFD (bytes ef bf bd)
printf '""\tNmea { msg: "Error(Error { input: [], code: Tag })" }\n"!AIVDM,1,1,,A,403OtVAv6s5l1o?I``E`4I?02<34,0*22"\tChecksum { expected: 34, found: 33 }\n"ga\357\277\275rbage"\tNmea { msg: "Error(Error { input: [103, 97, 255, 114, 98, 97, 103, 101], code: Tag })" }\n' > "$d/err.expected"

cmp -s "$d/out" "$d/out.expected" || { echo "stdout records differ from the original format:"; cat "$d/out"; fail=1; }
cmp -s "$d/err" "$d/err.expected" || { echo "stderr records differ from the original format:"; cat "$d/err"; fail=1; }
[ "$fail" -eq 0 ] && echo "demo: PASS (original record format)" || echo "demo: FAIL"
exit "$fail"

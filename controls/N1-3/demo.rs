//! Pins the old behaviour: the `message_type` header field of the Complete sentence delivered
//! for a multi-fragment group is computed from the LAST fragment's own payload ('0' -> 12),
//! not from the reassembled payload (which starts with '5' -> 13).
//! Works in all three build configurations.
use ais::{AisFragments, AisParser};

const FRAGMENT_1: &[u8] =
    b"!AIVDM,2,1,1,B,53`soB8000010KSOW<0P4eDp4l6000000000000U0p<24t@P05H3S833CDP00000,0*78";
const FRAGMENT_2: &[u8] = b"!AIVDM,2,2,1,B,0000000,2*26";

#[test]
fn completed_group_reports_the_last_fragments_message_type() {
    let mut parser = AisParser::new();
    let first = match parser.parse(FRAGMENT_1, true).unwrap() {
        AisFragments::Incomplete(sentence) => sentence,
        other => panic!("expected Incomplete, got {:?}", other),
    };
    assert_eq!(first.message_type, b'5' >> 2);
    let last = match parser.parse(FRAGMENT_2, true).unwrap() {
        AisFragments::Complete(sentence) => sentence,
        other => panic!("expected Complete, got {:?}", other),
    };
    assert_eq!(last.data.len(), 71);
    assert_eq!(last.data[0], b'5');
    assert_eq!(last.message_type, b'0' >> 2);
}

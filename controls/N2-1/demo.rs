//! Pins the old behaviour: the `Debug` rendering of an `AisParser` (the only view of its
//! internal state that the public API offers) is a function of the reassembly state alone. A
//! rejected line or an unfragmented sentence leaves it exactly as it was, a fresh parser
//! renders as the three reassembly fields, and a parser that has delivered a group renders
//! like a fresh one.
//!
//! Works with every feature set: `cargo test --offline [FLAGS] --test demo`.

use ais::{AisFragments, AisParser};

const UNFRAGMENTED: &[u8] = b"!AIVDM,1,1,,A,403OtVAv6s5l1o?I``E`4I?02<34,0*21";
const BAD_CHECKSUM: &[u8] = b"!AIVDM,1,1,,A,403OtVAv6s5l1o?I``E`4I?02<34,0*22";
const NOISE: &[u8] = b"hello, world";
const FRAGMENT_1: &[u8] =
    b"!AIVDM,2,1,1,B,53`soB8000010KSOW<0P4eDp4l6000000000000U0p<24t@P05H3S833CDP00000,0*78";
const FRAGMENT_2: &[u8] = b"!AIVDM,2,2,1,B,0000000,2*26";

/// Renders the parser into a fixed buffer, so that the demonstration also builds without an
/// allocator
struct Rendering {
    buf: [u8; 2048],
    len: usize,
}

impl core::fmt::Write for Rendering {
    fn write_str(&mut self, s: &str) -> core::fmt::Result {
        let bytes = s.as_bytes();
        let end = self.len + bytes.len();
        if end > self.buf.len() {
            return Err(core::fmt::Error);
        }
        self.buf[self.len..end].copy_from_slice(bytes);
        self.len = end;
        Ok(())
    }
}

impl PartialEq for Rendering {
    fn eq(&self, other: &Self) -> bool {
        self.as_str() == other.as_str()
    }
}

impl core::fmt::Debug for Rendering {
    fn fmt(&self, f: &mut core::fmt::Formatter<'_>) -> core::fmt::Result {
        f.write_str(self.as_str())
    }
}

impl Rendering {
    fn as_str(&self) -> &str {
        core::str::from_utf8(&self.buf[..self.len]).unwrap()
    }
}

fn render(parser: &AisParser) -> Rendering {
    use core::fmt::Write;
    let mut out = Rendering {
        buf: [0; 2048],
        len: 0,
    };
    write!(out, "{:?}", parser).unwrap();
    out
}

#[test]
fn fresh_parser_renders_as_its_reassembly_state() {
    assert_eq!(
        render(&AisParser::new()).as_str(),
        "AisParser { message_id: None, fragment_number: 0, data: [] }"
    );
}

#[test]
fn rejected_lines_do_not_change_the_rendering() {
    let mut parser = AisParser::new();
    let fresh = render(&parser);
    assert!(parser.parse(BAD_CHECKSUM, true).is_err());
    assert_eq!(render(&parser), fresh);
    assert!(parser.parse(NOISE, true).is_err());
    assert_eq!(render(&parser), fresh);
    // an orphaned second fragment
    assert!(parser.parse(FRAGMENT_2, true).is_err());
    assert_eq!(render(&parser), fresh);

    // the same with a group open
    assert!(matches!(
        parser.parse(FRAGMENT_1, true),
        Ok(AisFragments::Incomplete(_))
    ));
    let open = render(&parser);
    assert_ne!(open, fresh);
    assert!(parser.parse(BAD_CHECKSUM, true).is_err());
    assert_eq!(render(&parser), open);
    assert!(parser.parse(NOISE, true).is_err());
    assert_eq!(render(&parser), open);
}

#[test]
fn unfragmented_sentences_do_not_change_the_rendering() {
    let mut parser = AisParser::new();
    let fresh = render(&parser);
    assert!(matches!(
        parser.parse(UNFRAGMENTED, true),
        Ok(AisFragments::Complete(_))
    ));
    assert_eq!(render(&parser), fresh);

    assert!(parser.parse(FRAGMENT_1, false).is_ok());
    let open = render(&parser);
    assert!(matches!(
        parser.parse(UNFRAGMENTED, false),
        Ok(AisFragments::Complete(_))
    ));
    assert_eq!(render(&parser), open);
}

#[test]
fn a_parser_that_delivered_a_group_renders_like_a_fresh_one() {
    let mut parser = AisParser::new();
    let fresh = render(&parser);
    assert!(parser.parse(FRAGMENT_1, true).is_ok());
    assert!(matches!(
        parser.parse(FRAGMENT_2, true),
        Ok(AisFragments::Complete(_))
    ));
    assert_eq!(render(&parser), fresh);
}

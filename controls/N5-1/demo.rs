//! Pins the old behaviour: the `Debug` rendering of an `AisParser` shows nothing but its
//! reassembly state, so that parsers with the same history render identically, whenever and
//! on whichever thread they were created.
use ais::AisParser;

const FRAGMENT_1: &[u8] =
    b"!AIVDM,2,1,1,B,53`soB8000010KSOW<0P4eDp4l6000000000000U0p<24t@P05H3S833CDP00000,0*78";
const UNFRAGMENTED: &[u8] = b"!AIVDM,1,1,,A,403OtVAv6s5l1o?I``E`4I?02<34,0*21";

#[test]
fn fresh_parser_debug_is_just_the_reassembly_state() {
    assert_eq!(
        format!("{:?}", AisParser::new()),
        "AisParser { message_id: None, fragment_number: 0, data: [] }"
    );
}

#[test]
fn parsers_with_the_same_history_render_identically() {
    let mut first = AisParser::new();
    let mut second = AisParser::default();
    assert_eq!(format!("{:?}", first), format!("{:?}", second));
    for parser in [&mut first, &mut second] {
        parser.parse(UNFRAGMENTED, true).unwrap();
        parser.parse(FRAGMENT_1, true).unwrap();
    }
    assert_eq!(format!("{:?}", first), format!("{:?}", second));
    let elsewhere = std::thread::spawn(|| {
        let mut third = AisParser::new();
        third.parse(UNFRAGMENTED, true).unwrap();
        third.parse(FRAGMENT_1, true).unwrap();
        format!("{:?}", third)
    })
    .join()
    .unwrap();
    assert_eq!(format!("{:?}", first), elsewhere);
}

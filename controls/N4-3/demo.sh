#!/bin/sh
# Pins the original behaviour of aisparser when standard input cannot be read (here:
# standard input is a directory, every read fails with EISDIR): the tool panics on
# `line.unwrap()`, i.e. it prints a panic message and exits with status 101.
# (On a readable stream the output is checked too, and is the same before and after.)
# Usage: AISPARSER=/path/to/aisparser sh demo.sh
: "${AISPARSER:?set AISPARSER to the path of the aisparser binary}"
d=$(mktemp -d) || exit 2
trap 'rm -rf "$d"' EXIT
mkdir "$d/dir"
fail=0

# sanity: an ordinary stream is processed, one record, exit 0
printf '!AIVDM,1,1,,A,403OtVAv6s5l1o?I``E`4I?02<34,0*21' | "$AISPARSER" > "$d/out" 2> "$d/err"
[ $? -eq 0 ] && grep -q 'BaseStationReport' "$d/out" && [ ! -s "$d/err" ] \
    || { echo "ordinary stream not processed as expected"; fail=1; }

RUST_BACKTRACE=0 "$AISPARSER" < "$d/dir" > "$d/out" 2> "$d/err"
status=$?
[ "$status" -eq 101 ] || { echo "unreadable stdin: exit status $status, originally 101 (panic)"; fail=1; }
grep -q "panicked" "$d/err" || { echo "unreadable stdin: no panic message on stderr, got:"; cat "$d/err"; fail=1; }
[ -s "$d/out" ] && { echo "unexpected stdout output"; fail=1; }
[ "$fail" -eq 0 ] && echo "demo: PASS (read error on stdin is a panic, status 101)" || echo "demo: FAIL"
exit "$fail"

//! Pins the ORIGINAL text rule of 6-bit ASCII fields: only TRAILING '@' characters (and
//! surrounding spaces) are removed, so a '@' followed by further characters stays in the
//! reported text together with what follows it. Passes on the original tree (all three
//! feature sets); fails once the first '@' terminates the text.

use ais::messages::AisMessage;
use ais::sentence::{AisFragments, AisParser};

/// Bit-level builder for an AIS payload
struct Bits(Vec<bool>);

impl Bits {
    fn new() -> Self {
        Bits(Vec::new())
    }
    fn put(&mut self, value: u32, width: usize) -> &mut Self {
        for i in (0..width).rev() {
            self.0.push((value >> i) & 1 == 1);
        }
        self
    }
    fn text(&mut self, text: &str) -> &mut Self {
        for c in text.bytes() {
            let sixbit = match c {
                64..=95 => c - 64,
                32..=63 => c,
                _ => panic!("not representable in 6-bit ASCII: {}", c),
            };
            self.put(sixbit as u32, 6);
        }
        self
    }
    /// armored payload and fill bit count
    fn armor(&self) -> (String, u8) {
        let mut bits = self.0.clone();
        let fill = (6 - bits.len() % 6) % 6;
        bits.extend(std::iter::repeat(false).take(fill));
        let payload = bits
            .chunks(6)
            .map(|c| {
                let v = c.iter().fold(0u8, |acc, b| (acc << 1) | *b as u8);
                (if v < 40 { v + 48 } else { v + 56 }) as char
            })
            .collect();
        (payload, fill as u8)
    }
}

fn line(total: u8, num: u8, id: &str, payload: &str, fill: u8) -> Vec<u8> {
    let body = format!("AIVDM,{},{},{},A,{},{}", total, num, id, payload, fill);
    let sum = body.bytes().fold(0u8, |acc, b| acc ^ b);
    format!("!{}*{:02X}", body, sum).into_bytes()
}

fn complete(result: ais::errors::Result<AisFragments>) -> AisMessage {
    match result {
        Ok(AisFragments::Complete(sentence)) => sentence.message.expect("decoded message"),
        other => panic!("expected a complete sentence, got {:?}", other),
    }
}

/// Safety-related broadcast (type 14) with the given text
fn type14(text: &str) -> (String, u8) {
    let mut bits = Bits::new();
    bits.put(14, 6).put(0, 2).put(351809000, 30).put(0, 2).text(text);
    bits.armor()
}

#[test]
fn text_after_an_embedded_at_sign_is_reported() {
    let (payload, fill) = type14("MAYDAY@RELAY");
    let mut parser = AisParser::new();
    match complete(parser.parse(&line(1, 1, "", &payload, fill), true)) {
        AisMessage::SafetyRelatedBroadcastMessage(msg) => {
            assert_eq!(msg.mmsi, 351809000);
            assert_eq!(&msg.text[..], "MAYDAY@RELAY");
        }
        other => panic!("unexpected message {:?}", other),
    }
}

#[test]
fn only_trailing_at_signs_are_removed() {
    let (payload, fill) = type14("@@ECHO 1@@@");
    let mut parser = AisParser::new();
    match complete(parser.parse(&line(1, 1, "", &payload, fill), true)) {
        AisMessage::SafetyRelatedBroadcastMessage(msg) => assert_eq!(&msg.text[..], "@@ECHO 1"),
        other => panic!("unexpected message {:?}", other),
    }
}

#[test]
fn fragmented_message_reports_the_same_text() {
    let (payload, fill) = type14("MAYDAY@RELAY");
    let (a, b) = payload.split_at(9);
    let mut parser = AisParser::new();
    match parser.parse(&line(2, 1, "3", a, 0), true) {
        Ok(AisFragments::Incomplete(_)) => {}
        other => panic!("unexpected: {:?}", other),
    }
    match complete(parser.parse(&line(2, 2, "3", b, fill), true)) {
        AisMessage::SafetyRelatedBroadcastMessage(msg) => {
            assert_eq!(&msg.text[..], "MAYDAY@RELAY")
        }
        other => panic!("unexpected message {:?}", other),
    }
}

#[test]
fn aid_to_navigation_name_keeps_embedded_at_sign() {
    // type 21 with a 20 character name field "NO@1 BUOY@@@@@@@@@@@"
    let mut bits = Bits::new();
    bits.put(21, 6).put(0, 2).put(993692028, 30).put(1, 5);
    bits.text("NO@1 BUOY@@@@@@@@@@@");
    bits.put(0, 1).put(0x6791AC0, 28).put(0x3412345, 27);
    bits.put(0, 9).put(0, 9).put(0, 6).put(0, 6).put(7, 4).put(60, 6);
    bits.put(0, 1).put(0, 8).put(0, 1).put(1, 1).put(0, 1).put(0, 1);
    let (payload, fill) = bits.armor();
    let mut parser = AisParser::new();
    match complete(parser.parse(&line(1, 1, "", &payload, fill), true)) {
        AisMessage::AidToNavigationReport(msg) => assert_eq!(&msg.name[..], "NO@1 BUOY"),
        other => panic!("unexpected message {:?}", other),
    }
}

//! Pins the old reporting of fragments that cannot be used: two fixed texts, the same in all
//! three builds, and the message ID compared before the fragment number, so that a fragment
//! for which both are wrong (for instance any stray fragment with an ID, on a parser with no
//! group open) is reported as an ID mismatch.
//!
//! Works with every feature set: `cargo test --offline [FLAGS] --test demo`.

use ais::errors::Error;
use ais::{AisFragments, AisParser};

const PAYLOAD: &str = "403OtVAv6s5l1o?I``E`4I?02<34";

/// Builds `!AIVDM,<count>,<number>,<id>,A,<payload>,0*<checksum>`
fn line(count: u8, number: u8, id: &str, payload: &str) -> Vec<u8> {
    let body = format!("AIVDM,{},{},{},A,{},0", count, number, id, payload);
    let checksum = body.bytes().fold(0u8, |acc, b| acc ^ b);
    format!("!{}*{:02X}", body, checksum).into_bytes()
}

fn nmea_text(result: ais::Result<AisFragments>) -> String {
    match result {
        Err(Error::Nmea { msg }) => msg[..].to_string(),
        other => panic!("expected an NMEA error, got {:?}", other),
    }
}

#[test]
fn stray_fragment_with_an_id_is_reported_as_id_mismatch() {
    // no group open: the ID (None) and the number (0 + 1) are both wrong for "2 of 2, ID 7"
    let mut parser = AisParser::new();
    assert_eq!(
        nmea_text(parser.parse(&line(2, 2, "7", PAYLOAD), false)),
        "Message ID out of sequence"
    );
}

#[test]
fn both_wrong_within_an_open_group_is_reported_as_id_mismatch() {
    let mut parser = AisParser::new();
    assert!(matches!(
        parser.parse(&line(4, 1, "7", PAYLOAD), false),
        Ok(AisFragments::Incomplete(_))
    ));
    // fragment 3 of another group: wrong ID and wrong number
    assert_eq!(
        nmea_text(parser.parse(&line(4, 3, "8", PAYLOAD), false)),
        "Message ID out of sequence"
    );
    // the group is still open and continues
    assert!(matches!(
        parser.parse(&line(4, 2, "7", PAYLOAD), false),
        Ok(AisFragments::Incomplete(_))
    ));
}

#[test]
fn the_two_texts() {
    let mut parser = AisParser::new();
    assert!(parser.parse(&line(3, 1, "7", PAYLOAD), false).is_ok());
    // right ID, wrong number
    assert_eq!(
        nmea_text(parser.parse(&line(3, 3, "7", PAYLOAD), false)),
        "Fragment numbers out of sequence"
    );
    // wrong ID, right number
    assert_eq!(
        nmea_text(parser.parse(&line(3, 2, "8", PAYLOAD), false)),
        "Message ID out of sequence"
    );
    // a stray fragment without an ID on a parser with no group open
    let mut fresh = AisParser::new();
    assert_eq!(
        nmea_text(fresh.parse(&line(2, 2, "", PAYLOAD), false)),
        "Fragment numbers out of sequence"
    );
}

//! Pins the old behaviour (std and alloc builds): a payload byte that is no armoring character
//! is reported as "Value out of range: <decimal value>", by `unarmor()` and through the parser.
use ais::errors::Error;
use ais::messages::unarmor;
use ais::{AisFragments, AisParser};

fn sentence(body: &str) -> Vec<u8> {
    let checksum = body.bytes().fold(0u8, |acc, byte| acc ^ byte);
    format!("!{}*{:02X}", body, checksum).into_bytes()
}

fn nmea_text(err: Error) -> String {
    match err {
        Error::Nmea { msg } => msg.to_string(),
        other => panic!("expected an NMEA error, got {:?}", other),
    }
}

#[test]
fn unarmor_names_the_offending_value_only() {
    assert_eq!(nmea_text(unarmor(b"\"", 0).unwrap_err()), "Value out of range: 34");
    assert_eq!(nmea_text(unarmor(b"15M:X", 0).unwrap_err()), "Value out of range: 88");
    assert_eq!(nmea_text(unarmor(b"15M:_w", 2).unwrap_err()), "Value out of range: 95");
    assert_eq!(nmea_text(unarmor(b"w\xff", 0).unwrap_err()), "Value out of range: 255");
    // what is armoring still de-armors as before
    assert_eq!(&unarmor(b"9qKr", 0).unwrap()[..], [0b0010_0111, 0b1001_0110, 0b1111_1010]);
}

#[test]
fn parser_reports_the_same_text_when_decoding() {
    let line = sentence("AIVDM,1,1,,A,15M:Xh,0");
    let mut parser = AisParser::new();
    // without decoding the payload is passed along raw
    assert!(matches!(parser.parse(&line, false), Ok(AisFragments::Complete(_))));
    assert_eq!(
        nmea_text(parser.parse(&line, true).unwrap_err()),
        "Value out of range: 88"
    );
}

//! Pins the ORIGINAL behaviour: a type 23 (Group Assignment Command) payload is not
//! decodable ("Unimplemented type"), so with decoding requested the line is rejected, both
//! when it arrives unfragmented and when it arrives as the last fragment of a group.
//! Passes on the original tree (all three feature sets), fails once type 23 is supported.

use ais::sentence::{AisFragments, AisParser};

const PAYLOAD: &str = "G02OHAP8aLvg@@b1tF600000;00";

fn line(total: u8, num: u8, id: &str, payload: &str, fill: u8) -> Vec<u8> {
    let body = format!("AIVDM,{},{},{},B,{},{}", total, num, id, payload, fill);
    let sum = body.bytes().fold(0u8, |acc, b| acc ^ b);
    format!("!{}*{:02X}", body, sum).into_bytes()
}

#[test]
fn type23_is_unimplemented_for_the_payload_function() {
    let unarmored = ais::messages::unarmor(PAYLOAD.as_bytes(), 0).unwrap();
    assert_eq!(ais::messages::message_type(&unarmored).unwrap().1, 23);
    assert!(
        ais::messages::parse(&unarmored).is_err(),
        "type 23 payload decoded, the original tree reports it as unimplemented"
    );
}

#[test]
fn type23_line_is_rejected_when_decoding_is_requested() {
    let mut parser = AisParser::new();
    let single = line(1, 1, "", PAYLOAD, 0);
    // without decoding the sentence is accepted (unchanged by the control)
    match parser.parse(&single, false) {
        Ok(AisFragments::Complete(s)) => assert!(s.message.is_none()),
        other => panic!("unexpected: {:?}", other),
    }
    // with decoding the original tree rejects the line
    assert!(
        parser.parse(&single, true).is_err(),
        "unfragmented type 23 sentence accepted with decode=true"
    );
}

#[test]
fn type23_last_fragment_is_rejected_when_decoding_is_requested() {
    let mut parser = AisParser::new();
    let (a, b) = PAYLOAD.split_at(11);
    match parser.parse(&line(2, 1, "4", a, 0), true) {
        Ok(AisFragments::Incomplete(_)) => {}
        other => panic!("unexpected: {:?}", other),
    }
    assert!(
        parser.parse(&line(2, 2, "4", b, 0), true).is_err(),
        "fragmented type 23 message accepted with decode=true"
    );
}

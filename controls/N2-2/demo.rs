//! Pins the old behaviour for sentences whose fragment count and fragment number do not fit
//! together (number 0, count 0, number greater than the count): the parser did not look at
//! the numbering as such, so such a sentence was treated as "last fragment" whenever its
//! number was not below its count, and was accepted if it happened to fit the reassembly
//! state.
//!
//! Works with every feature set: `cargo test --offline [FLAGS] --test demo`.

use ais::errors::Error;
use ais::{AisFragments, AisParser};

const PAYLOAD: &str = "403OtVAv6s5l1o?I``E`4I?02<34";

/// Builds `!AIVDM,<count>,<number>,<id>,A,<payload>,<fill>*<checksum>`
fn line(count: u8, number: u8, id: &str, payload: &str, fill: u8) -> Vec<u8> {
    let body = format!("AIVDM,{},{},{},A,{},{}", count, number, id, payload, fill);
    let checksum = body.bytes().fold(0u8, |acc, b| acc ^ b);
    format!("!{}*{:02X}", body, checksum).into_bytes()
}

fn nmea_text(result: ais::Result<AisFragments>) -> String {
    match result {
        Err(Error::Nmea { msg }) => msg[..].to_string(),
        other => panic!("expected an NMEA error, got {:?}", other),
    }
}

#[test]
fn number_above_a_count_of_one_is_taken_as_unfragmented() {
    let mut parser = AisParser::new();
    let reference = match parser.parse(&line(1, 1, "", PAYLOAD, 0), true) {
        Ok(AisFragments::Complete(sentence)) => sentence,
        other => panic!("{:?}", other),
    };
    match parser.parse(&line(1, 2, "", PAYLOAD, 0), true) {
        Ok(AisFragments::Complete(sentence)) => {
            assert_eq!(sentence.num_fragments, 1);
            assert_eq!(sentence.fragment_number, 2);
            assert_eq!(&sentence.data[..], PAYLOAD.as_bytes());
            assert!(sentence.message.is_some());
            assert_eq!(sentence.message, reference.message);
        }
        other => panic!("expected Complete, got {:?}", other),
    }
}

#[test]
fn count_zero_number_one_is_delivered_by_a_fresh_parser() {
    let mut parser = AisParser::new();
    match parser.parse(&line(0, 1, "", PAYLOAD, 0), false) {
        Ok(AisFragments::Complete(sentence)) => {
            assert_eq!(sentence.num_fragments, 0);
            assert_eq!(&sentence.data[..], PAYLOAD.as_bytes());
        }
        other => panic!("expected Complete, got {:?}", other),
    }
}

#[test]
fn number_above_the_count_closes_an_open_group() {
    let mut parser = AisParser::new();
    let (a, b, c) = (&PAYLOAD[..10], &PAYLOAD[10..20], &PAYLOAD[20..]);
    assert!(matches!(
        parser.parse(&line(3, 1, "5", a, 0), false),
        Ok(AisFragments::Incomplete(_))
    ));
    assert!(matches!(
        parser.parse(&line(3, 2, "5", b, 0), false),
        Ok(AisFragments::Incomplete(_))
    ));
    // "fragment 3 of 2" continues the group and, not being below its count, ends it
    match parser.parse(&line(2, 3, "5", c, 0), false) {
        Ok(AisFragments::Complete(sentence)) => {
            assert_eq!(&sentence.data[..], PAYLOAD.as_bytes());
        }
        other => panic!("expected Complete, got {:?}", other),
    }
    // so that the regular third fragment finds nothing to continue
    assert!(parser.parse(&line(3, 3, "5", c, 0), false).is_err());
}

#[test]
fn number_zero_is_reported_as_a_sequencing_error() {
    let mut parser = AisParser::new();
    assert_eq!(
        nmea_text(parser.parse(&line(2, 0, "1", PAYLOAD, 0), false)),
        "Message ID out of sequence"
    );
    assert_eq!(
        nmea_text(parser.parse(&line(2, 0, "", PAYLOAD, 0), false)),
        "Fragment numbers out of sequence"
    );
    assert_eq!(
        nmea_text(parser.parse(&line(0, 0, "", PAYLOAD, 0), false)),
        "Fragment numbers out of sequence"
    );
}

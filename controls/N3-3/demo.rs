//! Pins the ORIGINAL Debug rendering of binary messages (types 6 and 8): the application
//! data is shown as a list of decimal bytes, `data: [235, 47, ...]`. This is also what the
//! command-line tool prints on standard output. Passes on the original tree (all three
//! feature sets); fails once the data is rendered as one hexadecimal string.
//! The decoded VALUES are not touched by the control - only their Debug text.

use ais::messages::AisMessage;
use ais::sentence::{AisFragments, AisParser};

const TYPE6: &[u8] = b"!AIVDM,1,1,,A,6B?n;be:cbapalgc;i6?Ow4,2*49";
const TYPE8_PART1: &[u8] = b"!AIVDM,2,1,5,B,8@2<HW@0Bkdh,0*2F";
const TYPE8_PART2: &[u8] = b"!AIVDM,2,2,5,B,F0dcH5R`Q@kDJ,4*5E";
const TYPE8_WHOLE: &[u8] = b"!AIVDM,1,1,,B,8@2<HW@0BkdhF0dcH5R`Q@kDJ,4*57";

const TYPE6_DEBUG: &str = "BinaryAddressedMessage(BinaryAddressedMessage { message_type: 6, \
repeat_indicator: 1, mmsi: 150834090, seqno: 3, dest_mmsi: 313240222, retransmit: false, \
dac: 669, fid: 11, data: [235, 47, 17, 143, 127, 241, 0] })";
const TYPE8_DEBUG: &str = "BinaryBroadcastMessage(BinaryBroadcastMessage { message_type: 8, \
repeat_indicator: 1, mmsi: 2300061, dac: 1, fid: 11, \
data: [59, 48, 88, 11, 43, 96, 88, 168, 133, 12, 212, 64] })";

fn complete(result: ais::errors::Result<AisFragments>) -> AisMessage {
    match result {
        Ok(AisFragments::Complete(sentence)) => sentence.message.expect("decoded message"),
        other => panic!("expected a complete sentence, got {:?}", other),
    }
}

#[test]
fn type6_debug_lists_decimal_bytes() {
    let mut parser = AisParser::new();
    let message = complete(parser.parse(TYPE6, true));
    assert_eq!(format!("{:?}", message), TYPE6_DEBUG);
}

#[test]
fn type8_debug_lists_decimal_bytes_fragmented_or_not() {
    let mut parser = AisParser::new();
    let whole = complete(parser.parse(TYPE8_WHOLE, true));
    assert!(matches!(
        parser.parse(TYPE8_PART1, true),
        Ok(AisFragments::Incomplete(_))
    ));
    let joined = complete(parser.parse(TYPE8_PART2, true));
    assert_eq!(whole, joined);
    assert_eq!(format!("{:?}", whole), TYPE8_DEBUG);
    assert_eq!(format!("{:?}", joined), TYPE8_DEBUG);
}

/// The same through the command-line tool (it only exists with the `std` feature)
#[cfg(feature = "std")]
#[test]
fn aisparser_prints_decimal_bytes() {
    let exe = env!("CARGO_BIN_EXE_aisparser");
    use std::io::Write;
    let mut child = std::process::Command::new(exe)
        .stdin(std::process::Stdio::piped())
        .stdout(std::process::Stdio::piped())
        .stderr(std::process::Stdio::piped())
        .spawn()
        .unwrap();
    {
        let mut stdin = child.stdin.take().unwrap();
        for l in [TYPE6, TYPE8_PART1, TYPE8_PART2] {
            stdin.write_all(l).unwrap();
            stdin.write_all(b"\n").unwrap();
        }
    }
    let output = child.wait_with_output().unwrap();
    assert!(output.status.success());
    assert!(output.stderr.is_empty());
    let expected = format!(
        "{:?}\tSome({})\n{:?}\tSome({})\n",
        String::from_utf8_lossy(TYPE6),
        TYPE6_DEBUG,
        String::from_utf8_lossy(TYPE8_PART2),
        TYPE8_DEBUG
    );
    assert_eq!(String::from_utf8_lossy(&output.stdout), expected);
}

#!/bin/sh
# Pins the original flushing behaviour of aisparser: the stdout record of a line is
# visible to the consumer as soon as the line has been read, while standard input is
# still open (standard output is flushed after every record).
# Usage: AISPARSER=/path/to/aisparser sh demo.sh
: "${AISPARSER:?set AISPARSER to the path of the aisparser binary}"
d=$(mktemp -d) || exit 2
trap 'exec 3>&- 2>/dev/null; [ -n "$pid" ] && kill "$pid" 2>/dev/null; rm -rf "$d"' EXIT
mkfifo "$d/in" || exit 2

"$AISPARSER" < "$d/in" > "$d/out" 2> "$d/err" &
pid=$!
exec 3> "$d/in"          # keep the writing end open: no end of input yet
printf '!AIVDM,1,1,,A,403OtVAv6s5l1o?I``E`4I?02<34,0*21\n' >&3

# wait up to 10 s for the record to show up while the input is still open
early=0
i=0
while [ "$i" -lt 100 ]; do
    if [ -s "$d/out" ]; then early=1; break; fi
    sleep 0.1
    i=$((i + 1))
done

exec 3>&-                # end of input
wait "$pid"
status=$?
pid=
fail=0
[ "$status" -eq 0 ] || { echo "exit status $status"; fail=1; }
# in any case the record must be there at the end
grep -q 'BaseStationReport' "$d/out" || { echo "no record on stdout at end of input"; fail=1; }
[ -s "$d/err" ] && { echo "unexpected stderr output:"; cat "$d/err"; fail=1; }
if [ "$early" -ne 1 ]; then
    echo "the stdout record only appeared after end of input (stdout is no longer flushed per record)"
    fail=1
fi
[ "$fail" -eq 0 ] && echo "demo: PASS (record visible before end of input)" || echo "demo: FAIL"
exit "$fail"

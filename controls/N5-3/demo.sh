#!/bin/sh
# Pins the old behaviour of the command-line tool: every record, on standard output and on
# standard error alike, is the quoted input line, a tab, and the decoded message or the error.
# Usage: AISPARSER=/path/to/aisparser sh demo.sh
set -u
: "${AISPARSER:?set AISPARSER to the path of the aisparser binary}"
tmp=$(mktemp -d) || exit 2
trap 'rm -rf "$tmp"' EXIT

cat > "$tmp/input" <<'LINES'
!AIVDM,1,1,,A,403OtVAv6s5l1o?I``E`4I?02<34,0*21
this is not a sentence
!AIVDM,2,1,1,B,53`soB8000010KSOW<0P4eDp4l6000000000000U0p<24t@P05H3S833CDP00000,0*78
!AIVDM,1,1,,A,403OtVAv6s5l1o?I``E`4I?02<34,0*22
!AIVDM,2,2,1,B,0000000,2*26
LINES

"$AISPARSER" < "$tmp/input" > "$tmp/out" 2> "$tmp/err"
status=$?
fail=0
if [ "$status" -ne 0 ]; then echo "exit status $status"; fail=1; fi

cat > "$tmp/err.expected" <<'LINES'
"this is not a sentence"	Nmea { msg: "Error(Error { input: [116, 104, 105, 115, 32, 105, 115, 32, 110, 111, 116, 32, 97, 32, 115, 101, 110, 116, 101, 110, 99, 101], code: Tag })" }
"!AIVDM,1,1,,A,403OtVAv6s5l1o?I``E`4I?02<34,0*22"	Checksum { expected: 34, found: 33 }
LINES
if ! cmp -s "$tmp/err" "$tmp/err.expected"; then
    echo "standard error differs from the old records:"; cat "$tmp/err"; fail=1
fi

# standard output: two records, each starting with the quoted line, then the message
if [ "$(wc -l < "$tmp/out")" -ne 2 ]; then echo "expected 2 records on standard output"; fail=1; fi
tab=$(printf '\t')
sed -n 1p "$tmp/out" | grep -q "^\"!AIVDM,1,1,,A,403OtVAv6s5l1o?I\`\`E\`4I?02<34,0\*21\"${tab}Some(BaseStationReport(" \
    || { echo "first record on standard output is not in the old format:"; sed -n 1p "$tmp/out"; fail=1; }
sed -n 2p "$tmp/out" | grep -q "^\"!AIVDM,2,2,1,B,0000000,2\*26\"${tab}Some(StaticAndVoyageRelatedData(" \
    || { echo "second record on standard output is not in the old format:"; sed -n 2p "$tmp/out"; fail=1; }

if [ "$fail" -eq 0 ]; then echo "demo: PASS (old behaviour)"; else echo "demo: FAIL"; fi
exit "$fail"

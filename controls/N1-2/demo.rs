//! Pins the old behaviour: whatever follows the two checksum digits is ignored, so a valid
//! sentence followed by extra bytes (here: a receive timestamp appended by a logger, or a
//! stray ';') is accepted. Works in all three build configurations.
use ais::{AisFragments, AisParser};

const WITH_TIMESTAMP: &[u8] =
    b"!AIVDM,1,1,,A,E>kb9I99S@0`8@:9ah;0TahI7@@;V4=v:nv;h00003vP100,0*7A,1696241893";
const WITH_SEMICOLON: &[u8] = b"!AIVDM,1,1,,A,403OtVAv6s5l1o?I``E`4I?02<34,0*21;";

#[test]
fn bytes_after_the_checksum_are_ignored() {
    let mut parser = AisParser::new();
    for line in [WITH_TIMESTAMP, WITH_SEMICOLON] {
        match parser.parse(line, true) {
            Ok(AisFragments::Complete(sentence)) => {
                assert_eq!(sentence.num_fragments, 1);
                assert!(sentence.message.is_some());
            }
            other => panic!("expected the sentence to be accepted, got {:?}", other),
        }
    }
}

//! Pins the old behaviour: a line whose fields are malformed AND whose checksum is wrong is
//! reported as an NMEA (form) error, because the fields are looked at before the checksum.
//! Works in all three build configurations.
use ais::errors::Error;
use ais::AisParser;

/// One ',' too many inside the payload (so the field grammar fails), and a checksum (8D) that
/// does not match the XOR of the body (56)
const BAD_FORM_BAD_SUM: &[u8] =
    b"!AIVDM,1,1,,A,E>kb9I99S@0`8@:9ah;0,TahI7@@;V4=v:nv;h00003vP100,0*8D";
/// The same malformed body with the matching checksum
const BAD_FORM_GOOD_SUM: &[u8] =
    b"!AIVDM,1,1,,A,E>kb9I99S@0`8@:9ah;0,TahI7@@;V4=v:nv;h00003vP100,0*56";
/// Report type cut short ("VD" instead of "VDM") and a wrong checksum
const SHORT_TYPE_BAD_SUM: &[u8] = b"!AIVD,1,1,,A,13aEOK?P00PD2wVMdLDRhgvL289?,0*00";

#[test]
fn malformed_line_with_wrong_checksum_is_a_form_error() {
    let mut parser = AisParser::new();
    for line in [BAD_FORM_BAD_SUM, SHORT_TYPE_BAD_SUM] {
        for decode in [false, true] {
            let err = parser.parse(line, decode).unwrap_err();
            assert!(
                matches!(err, Error::Nmea { .. }),
                "expected a form (Nmea) error, got {:?}",
                err
            );
        }
    }
    // unchanged either way: a malformed line with a matching checksum is a form error
    let err = parser.parse(BAD_FORM_GOOD_SUM, false).unwrap_err();
    assert!(matches!(err, Error::Nmea { .. }));
}

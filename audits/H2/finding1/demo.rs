// C02 (checksum gate): a checksum field of more than eight hexadecimal digits is cut after the
// eighth digit (nom's hex_u32), so the value the parser compares is neither the hexadecimal
// number that follows the '*' nor its first two digits.
//
// Run (fails on the current tree in every build):
//   cargo test --offline --test demo
//   cargo test --offline --no-default-features --features alloc --test demo
//   cargo test --offline --no-default-features --test demo
use ais::errors::Error;
use ais::AisParser;

// XOR of the bytes between '!' and '*' is 0x5F:  "!AIVDM,1,1,,A,15M67FC000G?ufbE`FepT@3n00Sa,0*5F" is the valid sentence.
const BODY: &[u8] = b"AIVDM,1,1,,A,15M67FC000G?ufbE`FepT@3n00Sa,0";

fn line(hex: &str) -> Vec<u8> {
    assert_eq!(BODY.iter().fold(0u8, |a, b| a ^ b), 0x5F);
    let mut l = vec![b'!'];
    l.extend_from_slice(BODY);
    l.push(b'*');
    l.extend_from_slice(hex.as_bytes());
    l
}

#[test]
fn sanity_valid_sentence_is_accepted() {
    assert!(AisParser::new().parse(&line("5F"), true).is_ok());
    assert!(AisParser::new().parse(&line("5E"), true).is_err());
}

/// The hexadecimal value that follows the '*' is 0x5F0 (= 1520; or 0x00 if only the two digits of
/// an NMEA checksum are read). Neither equals the XOR 0x5F, so the line must not be accepted.
#[test]
fn wrong_checksum_must_not_be_accepted() {
    let l = line("0000005F0");
    let r = AisParser::new().parse(&l, true);
    assert!(
        r.is_err(),
        "line with XOR 0x5F and transmitted hexadecimal value 0x0000005F0 was accepted: {:?}",
        r
    );
}

/// Conversely: the hexadecimal number 0x00000005F equals the XOR 0x5F, so the line should not be
/// rejected with a checksum error at all; and if only the first two digits count, the checksum
/// error has to carry the transmitted value 0x00. The parser reports transmitted value 0x05,
/// which the line does not contain under either reading.
#[test]
fn checksum_error_carries_a_value_that_was_never_transmitted() {
    let l = line("00000005F");
    if let Err(Error::Checksum { expected, found }) = AisParser::new().parse(&l, true) {
        assert_eq!(found, 0x5F, "computed value");
        assert_eq!(
            expected, 0x00,
            "checksum error carries transmitted value {:#04x}; the line says *00000005F",
            expected
        );
    }
}

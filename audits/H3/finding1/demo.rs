// Finding 1 (property C02): a transmitted checksum written with more than 8 hexadecimal digits
// is silently cut to its first 8 digits (nom's hex_u32), so the value the parser compares with is
// not "the hexadecimal value that follows the '*'".
//
// Copy to tests/demo.rs and run in any of the three builds; it fails in all of them:
//   cargo test --offline --test demo
//   cargo test --offline --no-default-features --features alloc --test demo
//   cargo test --offline --no-default-features --test demo
use ais::errors::Error;
use ais::sentence::AisParser;

const BODY: &str = "AIVDM,1,1,,A,13u?etPv2;0n:dDPwUM1U1Cb069D,0"; // XOR of these bytes is 0x24

fn xor(b: &[u8]) -> u8 {
    b.iter().fold(0, |a, x| a ^ x)
}

#[test]
fn agreeing_checksum_with_leading_zeros_is_not_a_checksum_error() {
    assert_eq!(xor(BODY.as_bytes()), 0x24);
    // 8 digits: value 0x24, accepted (this part passes today)
    let line8 = format!("!{}*00000024", BODY);
    assert!(AisParser::new().parse(line8.as_bytes(), false).is_ok());
    // 9 digits: the value is still 0x24 and still agrees with the computed XOR, so the line must
    // not be rejected with a checksum error. Today: Err(Checksum { expected: 2, found: 36 }).
    let line9 = format!("!{}*000000024", BODY);
    let r = AisParser::new().parse(line9.as_bytes(), false);
    assert!(
        !matches!(r, Err(Error::Checksum { .. })),
        "values agree (0x24 == 0x24) but the line is rejected with {:?}",
        r
    );
}

#[test]
fn differing_checksum_is_never_accepted() {
    // The hexadecimal value after '*' is 0x24FF (or, reading two digits, 0x00): in neither reading
    // does it equal the computed 0x24, so the line must not be accepted. "*24FF" is indeed
    // rejected, but with six leading zeros the parser reads only "00000024" and accepts the line.
    let short = format!("!{}*24FF", BODY);
    assert!(AisParser::new().parse(short.as_bytes(), false).is_err());
    let long = format!("!{}*00000024FF", BODY);
    let r = AisParser::new().parse(long.as_bytes(), false);
    assert!(r.is_err(), "transmitted 0x24FF != computed 0x24, yet accepted: {:?}", r);
}

// flags: run in all three configs; H6_OUT=<file> for outcome dump
use ais::sentence::{AisFragments, AisParser, AisSentence};
use ais::errors::Error;
use std::io::Write;

const NOALLOC: bool = cfg!(not(any(feature = "std", feature = "alloc")));
const ALPHA: &[u8] = b"0123456789:;<=>?@ABCDEFGHIJKLMNOPQRSTUVW`abcdefghijklmnopqrstuvw";

struct Rng(u64);
impl Rng {
    fn next(&mut self) -> u64 { let mut x = self.0; x ^= x << 13; x ^= x >> 7; x ^= x << 17; self.0 = x; x }
    fn below(&mut self, n: usize) -> usize { (self.next() % n as u64) as usize }
    fn pick<T: Copy>(&mut self, v: &[T]) -> T { v[self.below(v.len())] }
}

fn mk_line(n: u8, k: u8, id: Option<u8>, payload: &[u8], fill: u8, bad: bool) -> Vec<u8> {
    let mut body = Vec::new();
    body.extend_from_slice(b"AIVDM,");
    body.extend_from_slice(format!("{},{},", n, k).as_bytes());
    if let Some(i) = id { body.extend_from_slice(format!("{}", i).as_bytes()); }
    body.extend_from_slice(b",A,");
    body.extend_from_slice(payload);
    body.extend_from_slice(format!(",{}", fill).as_bytes());
    let mut c = body.iter().fold(0u8, |a, b| a ^ b);
    if bad { c ^= 0x21; }
    let mut l = vec![b'!'];
    l.extend_from_slice(&body);
    l.extend_from_slice(format!("*{:02X}", c).as_bytes());
    l
}

fn payload(rng: &mut Rng, first: u8, len: usize) -> Vec<u8> {
    let mut p = Vec::with_capacity(len);
    if len > 0 { p.push(first); }
    while p.len() < len { p.push(ALPHA[rng.below(64)]); }
    p
}

fn fnv(s: &str) -> u64 { let mut h = 0xcbf29ce484222325u64; for b in s.bytes() { h ^= b as u64; h = h.wrapping_mul(0x100000001b3); } h }

// class: 'C','I','N'(nmea err),'K'(checksum err)
fn class(r: &Result<AisFragments, Error>) -> char {
    match r { Ok(AisFragments::Complete(_)) => 'C', Ok(AisFragments::Incomplete(_)) => 'I', Err(Error::Checksum{..}) => 'K', Err(_) => 'N' }
}
fn canon(r: &Result<AisFragments, Error>) -> String {
    match r { Ok(f) => format!("{:?}", f), Err(Error::Checksum{expected, found}) => format!("K {} {}", expected, found), Err(_) => "N".to_string() }
}
fn sent(r: &Result<AisFragments, Error>) -> Option<&AisSentence> {
    match r { Ok(AisFragments::Complete(s)) | Ok(AisFragments::Incomplete(s)) => Some(s), _ => None }
}

fn out() -> Option<std::io::BufWriter<std::fs::File>> {
    std::env::var("H6_OUT").ok().map(|p| std::io::BufWriter::new(std::fs::OpenOptions::new().create(true).append(true).open(p).unwrap()))
}

fn random_split(rng: &mut Rng, total: usize, k: usize, mode: usize) -> Vec<usize> {
    // returns k positive sizes summing to total
    assert!(total >= k);
    let mut sizes = vec![1usize; k];
    let rest = total - k;
    match mode {
        0 => { // one big at random position
            let i = rng.below(k); sizes[i] += rest; }
        1 => { // uniform random cuts
            for _ in 0..rest { let i = rng.below(k); sizes[i] += 1; } }
        2 => { // two big
            let i = rng.below(k); let j = rng.below(k); let a = rng.below(rest + 1); sizes[i] += a; sizes[j] += rest - a; }
        _ => { // big one of 384 if possible
            let i = rng.below(k); let big = std::cmp::min(rest, 383); sizes[i] += big; let j = rng.below(k); sizes[j] += rest - big; }
    }
    sizes
}

/// Part A/B: in-order groups; checks C05 in this build and dumps for cross-build diff
fn run_group(rng: &mut Rng, w: &mut Option<std::io::BufWriter<std::fs::File>>, tag: &str, pl: &[u8], fill: u8, sizes: &[usize], id: Option<u8>, decode: bool, prior: usize) {
    let mut parser = AisParser::new();
    // prior history
    match prior {
        1 => { // abandoned group
            let p = payload(rng, b'1', 30); let _ = parser.parse(&mk_line(3, 1, id, &p, 0, false), decode); let _ = parser.parse(&mk_line(3, 2, id, &p, 0, false), decode); }
        2 => { // just-completed
            let p = payload(rng, b'1', 30); let _ = parser.parse(&mk_line(2, 1, id, &p, 0, false), decode); let _ = parser.parse(&mk_line(2, 2, id, &p, 0, false), decode); }
        3 => { // group given up for capacity
            let p = payload(rng, b'1', 300); let _ = parser.parse(&mk_line(3, 1, id, &p, 0, false), decode); let _ = parser.parse(&mk_line(3, 2, id, &p, 0, false), decode); }
        4 => { // oversized opening fragment
            let p = payload(rng, b'1', 400); let _ = parser.parse(&mk_line(3, 1, id, &p, 0, false), decode); }
        _ => {}
    }
    let n = sizes.len() as u8;
    let mut pos = 0usize;
    let mut classes = String::new();
    let mut hashes = 0u64;
    let total = pl.len();
    let mut cum = 0usize;
    let mut over = false;
    let unfrag = { let mut p2 = AisParser::new(); p2.parse(&mk_line(1, 1, None, pl, fill, false), decode) };
    for (i, sz) in sizes.iter().enumerate() {
        let part = &pl[pos..pos + sz]; pos += sz; cum += sz;
        let last = i + 1 == sizes.len();
        let f = if last { fill } else { 0 };
        // interleave noise
        if rng.below(4) == 0 {
            let p = payload(rng, b'1', 28);
            let r = parser.parse(&mk_line(1, 1, None, &p, 0, false), decode);
            assert_eq!(class(&r), 'C');
            let r = parser.parse(&mk_line(n, (i + 1) as u8, id, part, f, true), decode);
            assert_eq!(class(&r), 'K');
            let r = parser.parse(&mk_line(n, std::cmp::max(i + 1, 2) as u8, Some(77), part, f, false), decode);
            assert_eq!(class(&r), 'N', "out-of-seq {:?}", r);
            let r = parser.parse(b"!AIVDM,garbage", decode);
            assert_eq!(class(&r), 'N');
        }
        let r = parser.parse(&mk_line(n, (i + 1) as u8, id, part, f, false), decode);
        let c = class(&r);
        classes.push(c);
        hashes = hashes.wrapping_mul(31).wrapping_add(fnv(&canon(&r)));
        if NOALLOC && cum > 384 { over = true; }
        if over {
            assert_eq!(c, 'N', "{} sizes {:?} frag {} expected capacity error got {:?}", tag, sizes, i + 1, r);
            continue;
        }
        if !last {
            assert_eq!(c, 'I', "{} sizes {:?} frag {}: {:?}", tag, sizes, i + 1, r);
            let s = sent(&r).unwrap();
            assert_eq!(&s.data[..], part);
            assert_eq!(s.num_fragments, n); assert_eq!(s.fragment_number, (i + 1) as u8); assert_eq!(s.message_id, id);
            assert_eq!(s.fill_bit_count, f); assert!(s.message.is_none());
        } else {
            // compare with unfragmented
            match (&r, &unfrag) {
                (Ok(AisFragments::Complete(a)), Ok(AisFragments::Complete(b))) => {
                    assert_eq!(&a.data[..], pl, "{} sizes {:?}", tag, sizes);
                    assert_eq!(a.message, b.message, "{} sizes {:?}", tag, sizes);
                    assert_eq!(a.message.is_some(), decode);
                    assert_eq!(a.fill_bit_count, fill); assert_eq!(a.num_fragments, n); assert_eq!(a.fragment_number, n); assert_eq!(a.message_id, id);
                }
                (Err(_), Err(_)) => { assert_eq!(class(&r), class(&unfrag)); }
                _ => panic!("{} sizes {:?} fill {} decode {}: fragmented {:?} vs unfragmented {:?}", tag, sizes, fill, decode, r, unfrag),
            }
        }
    }
    let _ = total;
    if let Some(w) = w.as_mut() {
        writeln!(w, "{} ch={} len={} fill={} sizes={:?} id={:?} dec={} prior={} over={} -> {} {:016x} unfrag={} {:016x}", tag, pl[0], pl.len(), fill, sizes, id, decode, prior, pl.len() > 384, classes, hashes, class(&unfrag), fnv(&canon(&unfrag))).unwrap();
    }
}

#[test]
fn part_a_lengths_380_388() {
    let mut w = out();
    let mut rng = Rng(0x9E3779B97F4A7C15);
    let iters: usize = std::env::var("H6_ITERS").ok().and_then(|s| s.parse().ok()).unwrap_or(20000);
    let firsts = b"1245689<>ABCDEHKLc0?w";
    for it in 0..iters {
        let len = 380 + rng.below(9);
        let k = 2 + rng.below(8);
        let mode = rng.below(4);
        let sizes = random_split(&mut rng, len, k, mode);
        let first = rng.pick(firsts);
        let pl = payload(&mut rng, first, len);
        let fill = rng.below(6) as u8;
        let id = rng.pick(&[None, Some(0u8), Some(3), Some(9), Some(17), Some(255)]);
        let decode = rng.below(2) == 0;
        let prior = rng.below(5);
        run_group(&mut rng, &mut w, &format!("A{}", it), &pl, fill, &sizes, id, decode, prior);
    }
}

#[test]
fn part_a_exhaustive_two_and_three() {
    let mut w = out();
    let mut rng = Rng(0x1234567);
    for len in 380..=388usize {
        let pl = payload(&mut rng, b'5', len);
        for a in 1..len {
            for decode in [false, true] {
                run_group(&mut rng, &mut w, "A2", &pl, 2, &[a, len - a], Some(1), decode, 0);
            }
        }
        // three fragments: 1-char edges
        for a in [1usize, 2, 191, 192, 383, 384] {
            for b in [1usize, 2, 190, 192, 383, 384] {
                if a + b < len { run_group(&mut rng, &mut w, "A3", &pl, 0, &[a, b, len - a - b], None, true, 3); }
            }
        }
        // nine fragments
        for big in 0..9 { let mut s = vec![1usize; 9]; s[big] = len - 8; run_group(&mut rng, &mut w, "A9", &pl, 0, &s, Some(9), true, 0); }
    }
}

fn set_bits(bits: &mut Vec<u8>, at: usize, width: usize, val: u64) { for i in 0..width { bits[at + i] = ((val >> (width - 1 - i)) & 1) as u8; } }
fn armor(bits: &[u8]) -> (Vec<u8>, u8) {
    let mut b = bits.to_vec(); let fill = (6 - b.len() % 6) % 6; for _ in 0..fill { b.push(0); }
    let mut o = Vec::new(); for c in b.chunks(6) { let v = c.iter().fold(0u8, |a, x| a << 1 | x); o.push(ALPHA[v as usize]); }
    (o, fill as u8)
}

#[test]
fn part_b_decoder_capacities() {
    let mut w = out();
    let mut rng = Rng(0xABCDEF0123);
    // (type, header bits, data unit bits)
    for &(ty, hdr) in &[(8u64, 56usize), (6, 88), (17, 120), (12, 72), (14, 40)] {
        let unit = if ty == 12 || ty == 14 { 6 } else { 8 };
        let cap_units = if unit == 6 { 20 } else { 119 };
        for units in (cap_units - 2)..=(cap_units + 2) {
            for extra in 0..unit { // extra bits past whole units
                for rep in 0..6 {
                    let nbits = hdr + units * unit + extra;
                    let mut bits: Vec<u8> = (0..nbits).map(|_| (rng.next() & 1) as u8).collect();
                    set_bits(&mut bits, 0, 6, ty);
                    if rep == 0 { for b in bits[hdr..].iter_mut() { *b = 1; } }
                    if rep == 1 && unit == 6 { // no padding chars in text: make each char nonzero non-space
                        for c in 0..(nbits - hdr) / 6 { set_bits(&mut bits, hdr + c * 6, 6, 1 + (rng.next() % 26)); } }
                    let (pl, fill) = armor(&bits);
                    let transmitted = pl.len() * 6 - fill as usize - hdr;
                    let exceeds = if unit == 8 { transmitted > 119 * 8 } else { transmitted > 20 * 6 };
                    // unfragmented result
                    let mut p = AisParser::new();
                    let r = p.parse(&mk_line(1, 1, None, &pl, fill, false), true);
                    if NOALLOC && !exceeds { assert_eq!(class(&r), 'C', "type {} units {} extra {} fill {}: {:?}", ty, units, extra, fill, r); }
                    if !NOALLOC { assert_eq!(class(&r), 'C', "type {} units {} extra {}: {:?}", ty, units, extra, r); }
                    if let Some(w) = w.as_mut() { writeln!(w, "B ty={} units={} extra={} rep={} fill={} exceeds={} -> {} {:016x}", ty, units, extra, rep, fill, exceeds, class(&r), fnv(&canon(&r))).unwrap(); }
                    // all 2-splits and random k-splits
                    for a in 1..pl.len() { run_group(&mut rng, &mut None, "B2", &pl, fill, &[a, pl.len() - a], Some(2), true, 0); }
                    for _ in 0..20 { let k = 2 + rng.below(8); let mode = rng.below(3); let s = random_split(&mut rng, pl.len(), k, mode); let prior = rng.below(5); run_group(&mut rng, &mut w, "Bk", &pl, fill, &s, Some(7), true, prior); }
                }
            }
        }
    }
}

/// Part C: random histories vs reference model
#[derive(Clone)]
struct Desc { n: u8, k: u8, id: Option<u8>, pl: Vec<u8>, fill: u8, bad: bool }

#[test]
fn part_c_histories() {
    let mut w = out();
    let seeds: usize = std::env::var("H6_SEEDS").ok().and_then(|s| s.parse().ok()).unwrap_or(3000);
    for seed in 0..seeds {
        let mut rng = Rng(0xDEADBEEF ^ ((seed as u64 + 1).wrapping_mul(0x9E3779B97F4A7C15)));
        let mut parser = AisParser::new();
        // model (std semantics): open group
        let mut open: Option<(Option<u8>, u8, u8, Vec<u8>)> = None; // id, last k, n, data
        let mut tainted_closed = false; // noalloc: group given up => model for noalloc has no open group while std has one
        let mut prev: Option<Desc> = None;
        let lens = [1usize, 2, 100, 190, 192, 193, 200, 383, 384, 385, 400, 767, 768];
        let mut log = String::new();
        let mut hash = 0u64;
        for step in 0..40 {
            let decode = rng.below(2) == 0;
            let choice = rng.below(100);
            let d: Desc = if choice < 10 && prev.is_some() {
                prev.clone().unwrap()
            } else if choice < 25 {
                let l = rng.pick(&[1usize, 28, 384, 385, 500]);
                Desc { n: 1, k: 1, id: rng.pick(&[None, Some(1u8)]), pl: payload(&mut rng, rng_first(seed, step), l), fill: 0, bad: rng.below(8) == 0 }
            } else {
                let cont = rng.below(100) < 70 && open.is_some();
                let (n, k, id) = if cont { let o = open.as_ref().unwrap(); (o.2, o.1.wrapping_add(1), o.0) } else {
                    let n = 2 + rng.below(4) as u8; (n, 1 + rng.below(n as usize) as u8, rng.pick(&[None, Some(1u8), Some(2), Some(17)])) };
                let n = if rng.below(20) == 0 { n.wrapping_add(1) } else { n };
                let l = rng.pick(&lens);
                Desc { n, k, id, pl: payload(&mut rng, rng_first(seed, step), l), fill: if k >= n { rng.below(6) as u8 } else { 0 }, bad: rng.below(10) == 0 }
            };
            if d.n == 0 || d.k == 0 { continue; }
            prev = Some(d.clone());
            let line = mk_line(d.n, d.k, d.id, &d.pl, d.fill, d.bad);
            let r = parser.parse(&line, decode);
            let c = class(&r);
            log.push(c);
            hash = hash.wrapping_mul(31).wrapping_add(fnv(&canon(&r)));
            // ---- model ----
            let exp: char; // expected class in std
            let mut excuse = false; // noalloc may reject for capacity
            let mut expect_payload: Option<Vec<u8>> = None;
            if d.bad { exp = 'K'; }
            else if d.n == 1 || (d.k > d.n && d.n == 1) { exp = 'C'; if d.pl.len() > 384 { excuse = true; } expect_payload = Some(d.pl.clone()); }
            else if d.k < d.n {
                if d.k == 1 { open = Some((d.id, 1, d.n, d.pl.clone())); exp = 'I'; expect_payload = Some(d.pl.clone());
                    tainted_closed = d.pl.len() > 384; if tainted_closed { excuse = true; } }
                else if let Some(o) = open.as_mut() {
                    if o.0 == d.id && o.1 + 1 == d.k { o.1 = d.k; o.3.extend_from_slice(&d.pl); exp = 'I'; expect_payload = Some(d.pl.clone());
                        if o.3.len() > 384 { tainted_closed = true; } if tainted_closed { excuse = true; } }
                    else { exp = 'N'; }
                } else { exp = 'N'; }
            } else {
                // last fragment (k >= n, n != 1)
                let ok = match open.as_ref() { Some(o) => o.0 == d.id && o.1 + 1 == d.k, None => false };
                if ok { let mut o = open.take().unwrap(); o.3.extend_from_slice(&d.pl); exp = 'C'; if o.3.len() > 384 { tainted_closed = true; } if tainted_closed { excuse = true; } expect_payload = Some(o.3); tainted_closed = false; }
                else { exp = 'N'; }
            }
            // compare
            let decode_may_fail = exp == 'C' && decode;
            let ok = if NOALLOC && excuse { c == 'N' } else if decode_may_fail {
                // compare with fresh unfragmented
                let pl = expect_payload.clone().unwrap();
                let mut p2 = AisParser::new(); let u = p2.parse(&mk_line(1, 1, None, &pl, d.fill, false), true);
                match (&r, &u) { (Ok(AisFragments::Complete(a)), Ok(AisFragments::Complete(b))) => a.message == b.message && a.data == b.data, (Err(_), Err(_)) => c == class(&u), _ => false }
            } else { c == exp };
            if !ok { panic!("seed {} step {}: line n={} k={} id={:?} len={} fill={} bad={} decode={} -> got {:?}, model {} excuse {} (history {})", seed, step, d.n, d.k, d.id, d.pl.len(), d.fill, d.bad, decode, r, exp, excuse, log); }
            if let (Some(s), Some(pl)) = (sent(&r), expect_payload.as_ref()) { assert_eq!(&s.data[..], &pl[..], "seed {} step {}", seed, step); }
        }
        if let Some(w) = w.as_mut() { writeln!(w, "C seed={} -> {} {:016x}", seed, log, hash).unwrap(); }
    }
}
fn rng_first(seed: usize, step: usize) -> u8 { let f = b"1234589ABCDEHKL"; f[(seed * 7 + step * 3) % f.len()] }

#[test]
fn part_d_unfragmented_sweep() {
    let mut w = out();
    let mut rng = Rng(0x5151515151);
    for (ti, &first) in ALPHA.iter().enumerate() {
        for len in (1..=120usize).chain(160..=190).chain(370..=384) {
            for fill in 0..6u8 {
                let pl = payload(&mut rng, first, len);
                let mut p = AisParser::new();
                let r = p.parse(&mk_line(1, 1, None, &pl, fill, false), true);
                // also as a 2-fragment group split at random point, must equal
                if len >= 2 {
                    let a = 1 + rng.below(len - 1);
                    let r1 = p.parse(&mk_line(2, 1, Some(4), &pl[..a], 0, false), true);
                    assert_eq!(class(&r1), 'I');
                    let r2 = p.parse(&mk_line(2, 2, Some(4), &pl[a..], fill, false), true);
                    match (&r, &r2) { (Ok(AisFragments::Complete(x)), Ok(AisFragments::Complete(y))) => { assert_eq!(x.message, y.message); assert_eq!(x.data, y.data); }, (Err(_), Err(_)) => {}, _ => panic!("type {} len {} fill {}: {:?} vs {:?}", ti, len, fill, r, r2) }
                }
                if let Some(w) = w.as_mut() { writeln!(w, "D ty={} len={} fill={} -> {} {:016x}", ti, len, fill, class(&r), fnv(&canon(&r))).unwrap(); }
            }
        }
    }
}

// Finding 1 (C18): the no-allocator build refuses a binary message of type 6 or type 17 whose
// binary data is EXACTLY 119 bytes (the stated capacity), because the zero bits that pad the
// payload to a whole number of 6-bit characters and then to whole bytes are counted as a 120th
// byte of data.  The std and alloc builds accept the same sentences.
//
// Run with:   cargo test --offline --no-default-features --test demo      (copy this file to tests/demo.rs; FAILS: defect)
// Passes with the default features and with `--no-default-features --features alloc`.
use ais::messages::AisMessage;
use ais::{AisFragments, AisParser};

fn push_bits(bits: &mut Vec<u8>, value: u64, n: usize) {
    for i in (0..n).rev() {
        bits.push(((value >> i) & 1) as u8);
    }
}

/// Renders a bit string as a well-formed unfragmented !AIVDM sentence: 6-bit armoring, the
/// last character padded with zero bits, the fill-bit count stating how many were added.
fn sentence(bits: &[u8]) -> Vec<u8> {
    let n = (bits.len() + 5) / 6;
    let fill = n * 6 - bits.len();
    let mut body = b"AIVDM,1,1,,A,".to_vec();
    for i in 0..n {
        let mut v = 0u8;
        for j in 0..6 {
            v = (v << 1) | bits.get(i * 6 + j).copied().unwrap_or(0);
        }
        body.push(if v < 40 { v + 48 } else { v + 56 });
    }
    body.extend_from_slice(format!(",{}", fill).as_bytes());
    let ck = body.iter().fold(0u8, |a, b| a ^ b);
    let mut line = vec![b'!'];
    line.extend_from_slice(&body);
    line.extend_from_slice(format!("*{:02X}", ck).as_bytes());
    line
}

fn data_bytes(n: usize) -> Vec<u8> {
    (0..n).map(|i| (i as u8).wrapping_mul(37).wrapping_add(11) | 1).collect()
}

fn decode(line: &[u8]) -> AisMessage {
    let mut parser = AisParser::new();
    match parser.parse(line, true) {
        Ok(AisFragments::Complete(s)) => s.message.expect("decoded message"),
        other => panic!(
            "sentence with exactly 119 bytes of binary data not accepted: {:?}\n{}",
            other,
            String::from_utf8_lossy(line)
        ),
    }
}

/// Control: type 8 with exactly 119 bytes of data (168 characters, no fill) is accepted by
/// every build, so 119 bytes really is within the capacity.
#[test]
fn type8_with_119_bytes_is_accepted() {
    let data = data_bytes(119);
    let mut bits = Vec::new();
    push_bits(&mut bits, 8, 6); // type
    push_bits(&mut bits, 0, 2); // repeat
    push_bits(&mut bits, 123456789, 30); // mmsi
    push_bits(&mut bits, 0, 2); // spare
    push_bits(&mut bits, 1, 10); // dac
    push_bits(&mut bits, 31, 6); // fid
    for b in &data {
        push_bits(&mut bits, *b as u64, 8);
    }
    match decode(&sentence(&bits)) {
        AisMessage::BinaryBroadcastMessage(m) => assert_eq!(&m.data[..], &data[..]),
        other => panic!("unexpected {:?}", other),
    }
}

/// Type 6: 88 header bits + 119 * 8 data bits = 1040 bits = 174 characters with 4 fill bits.
#[test]
fn type6_with_119_bytes_is_accepted() {
    let data = data_bytes(119);
    let mut bits = Vec::new();
    push_bits(&mut bits, 6, 6); // type
    push_bits(&mut bits, 0, 2); // repeat
    push_bits(&mut bits, 123456789, 30); // mmsi
    push_bits(&mut bits, 1, 2); // seqno
    push_bits(&mut bits, 987654321, 30); // dest mmsi
    push_bits(&mut bits, 0, 1); // retransmit
    push_bits(&mut bits, 0, 1); // spare
    push_bits(&mut bits, 1, 10); // dac
    push_bits(&mut bits, 31, 6); // fid
    for b in &data {
        push_bits(&mut bits, *b as u64, 8);
    }
    assert_eq!(bits.len(), 1040);
    match decode(&sentence(&bits)) {
        AisMessage::BinaryAddressedMessage(m) => {
            assert_eq!(m.dest_mmsi, 987654321);
            // (the other builds append one zero byte that is purely padding)
            assert_eq!(&m.data[..119], &data[..]);
        }
        other => panic!("unexpected {:?}", other),
    }
}

/// Type 17: 80 + 40 header bits + 119 * 8 data bits = 1072 bits = 179 characters, 2 fill bits.
#[test]
fn type17_with_119_bytes_is_accepted() {
    let data = data_bytes(119);
    let mut bits = Vec::new();
    push_bits(&mut bits, 17, 6); // type
    push_bits(&mut bits, 0, 2); // repeat
    push_bits(&mut bits, 2734450, 30); // mmsi
    push_bits(&mut bits, 0, 2); // spare
    push_bits(&mut bits, 17478, 18); // longitude
    push_bits(&mut bits, 35992, 17); // latitude
    push_bits(&mut bits, 0, 5); // spare
    push_bits(&mut bits, 9, 6); // dgnss message type
    push_bits(&mut bits, 700, 10); // station id
    push_bits(&mut bits, 2776, 13); // z count
    push_bits(&mut bits, 3, 3); // sequence number
    push_bits(&mut bits, 29, 5); // n
    push_bits(&mut bits, 0, 3); // health
    for b in &data {
        push_bits(&mut bits, *b as u64, 8);
    }
    assert_eq!(bits.len(), 1072);
    match decode(&sentence(&bits)) {
        AisMessage::DgnssBroadcastBinaryMessage(m) => {
            assert_eq!(m.payload.station_id, 700);
            assert_eq!(&m.payload.data[..119], &data[..]);
        }
        other => panic!("unexpected {:?}", other),
    }
}

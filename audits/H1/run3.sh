#!/bin/bash
# usage: run3.sh <testname-filter>
cd /tmp/hunt/H1/wt
export CARGO_NET_OFFLINE=true
T=$1
HUNT_MODE=write HUNT_BUILD=std cargo test --offline --target-dir target/std --test hunt -- $T --nocapture 2>&1 | grep -v "^\s*Compiling\|^warning\|^\s*$" | tail -60
HUNT_MODE=check HUNT_BUILD=alloc cargo test --offline --target-dir target/alloc --no-default-features --features alloc --test hunt -- $T --nocapture 2>&1 | grep -v "^\s*Compiling\|^warning\|^\s*$" | tail -60
HUNT_MODE=check HUNT_BUILD=none cargo test --offline --target-dir target/none --no-default-features --test hunt -- $T --nocapture 2>&1 | grep -v "^\s*Compiling\|^warning\|^\s*$" | tail -60

// Finding 2 (C18): the no-allocator build refuses a safety-related message (type 12 or 14)
// whose text is well within 20 characters but whose text field is padded on the wire with
// '@' (the 6-bit padding character) or led by spaces to 22 or more 6-bit characters.  The std
// and alloc builds accept it and deliver the trimmed text.
//
// Run with:   cargo test --offline --no-default-features --test demo      (copy this file to tests/demo.rs; FAILS: defect)
// Passes with the default features and with `--no-default-features --features alloc`.
use ais::messages::AisMessage;
use ais::{AisFragments, AisParser};

fn push_bits(bits: &mut Vec<u8>, value: u64, n: usize) {
    for i in (0..n).rev() {
        bits.push(((value >> i) & 1) as u8);
    }
}

fn push_text(bits: &mut Vec<u8>, text: &str) {
    for c in text.bytes() {
        // 6-bit ASCII: '@'..'_' -> 0..31, ' '..'?' -> 32..63
        let v = if c >= 64 { c - 64 } else { c };
        push_bits(bits, v as u64, 6);
    }
}

fn sentence(bits: &[u8]) -> Vec<u8> {
    let n = (bits.len() + 5) / 6;
    let fill = n * 6 - bits.len();
    let mut body = b"AIVDM,1,1,,A,".to_vec();
    for i in 0..n {
        let mut v = 0u8;
        for j in 0..6 {
            v = (v << 1) | bits.get(i * 6 + j).copied().unwrap_or(0);
        }
        body.push(if v < 40 { v + 48 } else { v + 56 });
    }
    body.extend_from_slice(format!(",{}", fill).as_bytes());
    let ck = body.iter().fold(0u8, |a, b| a ^ b);
    let mut line = vec![b'!'];
    line.extend_from_slice(&body);
    line.extend_from_slice(format!("*{:02X}", ck).as_bytes());
    line
}

fn decode(line: &[u8]) -> AisMessage {
    let mut parser = AisParser::new();
    match parser.parse(line, true) {
        Ok(AisFragments::Complete(s)) => s.message.expect("decoded message"),
        other => panic!(
            "safety message with a short text not accepted: {:?}\n{}",
            other,
            String::from_utf8_lossy(line)
        ),
    }
}

fn type14(wire_text: &str) -> Vec<u8> {
    let mut bits = Vec::new();
    push_bits(&mut bits, 14, 6);
    push_bits(&mut bits, 0, 2);
    push_bits(&mut bits, 351809000, 30);
    push_bits(&mut bits, 0, 2);
    push_text(&mut bits, wire_text);
    sentence(&bits)
}

fn type12(wire_text: &str) -> Vec<u8> {
    let mut bits = Vec::new();
    push_bits(&mut bits, 12, 6);
    push_bits(&mut bits, 0, 2);
    push_bits(&mut bits, 351853000, 30);
    push_bits(&mut bits, 0, 2);
    push_bits(&mut bits, 316123456, 30);
    push_bits(&mut bits, 0, 1);
    push_bits(&mut bits, 0, 1);
    push_text(&mut bits, wire_text);
    sentence(&bits)
}

#[test]
fn type14_five_characters_padded_to_22() {
    // "HELLO" followed by 17 padding characters: 22 six-bit characters on the wire
    match decode(&type14("HELLO@@@@@@@@@@@@@@@@@")) {
        AisMessage::SafetyRelatedBroadcastMessage(m) => assert_eq!(m.text, "HELLO"),
        other => panic!("unexpected {:?}", other),
    }
}

#[test]
fn type12_good_padded_to_24() {
    match decode(&type12("GOOD@@@@@@@@@@@@@@@@@@@@")) {
        AisMessage::AddressedSafetyRelatedMessage(m) => assert_eq!(m.text, "GOOD"),
        other => panic!("unexpected {:?}", other),
    }
}

/// Control: the same texts padded to 20 characters are accepted by every build.
#[test]
fn control_padded_to_20() {
    match decode(&type14("HELLO@@@@@@@@@@@@@@@")) {
        AisMessage::SafetyRelatedBroadcastMessage(m) => assert_eq!(m.text, "HELLO"),
        other => panic!("unexpected {:?}", other),
    }
    match decode(&type12("GOOD@@@@@@@@@@@@@@@@")) {
        AisMessage::AddressedSafetyRelatedMessage(m) => assert_eq!(m.text, "GOOD"),
        other => panic!("unexpected {:?}", other),
    }
}

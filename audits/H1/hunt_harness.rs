// Cross-build comparison harness.
// Run first with the default (std) build and HUNT_MODE=write, then with the other builds and
// HUNT_MODE=check.  HUNT_FILE names the reference file, HUNT_BUILD the build ("alloc"/"none").
#![allow(dead_code)]
use ais::errors::Error;
use ais::messages::{self, AisMessage};
use ais::{AisFragments, AisParser};
use std::fs::File;
use std::io::{BufRead, BufReader, BufWriter, Write};

// ---------- rng ----------
pub struct Rng(u64);
impl Rng {
    pub fn new(seed: u64) -> Self {
        Rng(seed.wrapping_mul(0x9E3779B97F4A7C15) ^ 0xD1B54A32D192ED03)
    }
    pub fn next(&mut self) -> u64 {
        let mut x = self.0;
        x ^= x << 13;
        x ^= x >> 7;
        x ^= x << 17;
        self.0 = x;
        x.wrapping_mul(0x2545F4914F6CDD1D)
    }
    pub fn below(&mut self, n: u64) -> u64 {
        (self.next() >> 11) % n
    }
}

// ---------- armoring ----------
pub fn armor_char(v: u8) -> u8 {
    assert!(v < 64);
    if v < 40 {
        v + 48
    } else {
        v + 56
    }
}

/// bits (0/1 values) -> payload characters and fill count; pad bits taken from `pad`
pub fn armor_bits(bits: &[u8], pad: u8) -> (Vec<u8>, u8) {
    let n = (bits.len() + 5) / 6;
    let fill = n * 6 - bits.len();
    let mut out = Vec::with_capacity(n);
    for i in 0..n {
        let mut v = 0u8;
        for j in 0..6 {
            let idx = i * 6 + j;
            let b = if idx < bits.len() { bits[idx] } else { pad & 1 };
            v = (v << 1) | b;
        }
        out.push(armor_char(v));
    }
    (out, fill as u8)
}

pub fn push_bits(bits: &mut Vec<u8>, value: u64, n: usize) {
    for i in (0..n).rev() {
        bits.push(((value >> i) & 1) as u8);
    }
}

pub fn checksum(body: &[u8]) -> u8 {
    body.iter().fold(0, |a, b| a ^ b)
}

pub fn sentence(n: &str, k: &str, id: &str, chan: &str, payload: &[u8], fill: u8) -> Vec<u8> {
    let mut body = Vec::new();
    body.extend_from_slice(b"AIVDM,");
    body.extend_from_slice(n.as_bytes());
    body.push(b',');
    body.extend_from_slice(k.as_bytes());
    body.push(b',');
    body.extend_from_slice(id.as_bytes());
    body.push(b',');
    body.extend_from_slice(chan.as_bytes());
    body.push(b',');
    body.extend_from_slice(payload);
    body.push(b',');
    body.extend_from_slice(fill.to_string().as_bytes());
    let ck = checksum(&body);
    let mut line = vec![b'!'];
    line.extend_from_slice(&body);
    line.extend_from_slice(format!("*{:02X}", ck).as_bytes());
    line
}

// ---------- canonical outcomes ----------
#[derive(Default, Clone, Debug)]
pub struct Meta {
    pub paylen: usize,
    pub textlen: usize,
    pub binlen: usize,
    /// six-bit characters in the text field of a type 12/14 message, as far as the caller knows
    pub wire: usize,
}

/// number of six-bit characters the open-ended text of a type 12/14 message occupies
pub fn wire_chars(typ: u8, unarmored_len: usize) -> usize {
    let head = match typ {
        12 => 72,
        14 => 40,
        _ => return 0,
    };
    (unarmored_len * 8).saturating_sub(head) / 6
}

fn msg_meta(m: &AisMessage, meta: &mut Meta) {
    use ais::messages::static_data_report::MessagePart;
    match m {
        AisMessage::StaticAndVoyageRelatedData(x) => {
            meta.textlen = x.callsign.len().max(x.vessel_name.len()).max(x.destination.len())
        }
        AisMessage::AddressedSafetyRelatedMessage(x) => meta.textlen = x.text.len(),
        AisMessage::SafetyRelatedBroadcastMessage(x) => meta.textlen = x.text.len(),
        AisMessage::ExtendedClassBPositionReport(x) => meta.textlen = x.name.len(),
        AisMessage::AidToNavigationReport(x) => meta.textlen = x.name.len(),
        AisMessage::StaticDataReport(x) => match &x.message_part {
            MessagePart::PartA { vessel_name } => meta.textlen = vessel_name.len(),
            MessagePart::PartB {
                vendor_id,
                model_serial,
                callsign,
                ..
            } => meta.textlen = vendor_id.len().max(model_serial.len()).max(callsign.len()),
            _ => {}
        },
        AisMessage::BinaryAddressedMessage(x) => meta.binlen = x.data.len(),
        AisMessage::BinaryBroadcastMessage(x) => meta.binlen = x.data.len(),
        AisMessage::DgnssBroadcastBinaryMessage(x) => meta.binlen = x.payload.data.len(),
        _ => {}
    }
}

pub fn canon_frag(r: &ais::Result<AisFragments>) -> (String, Meta) {
    let mut meta = Meta::default();
    let s = match r {
        Ok(f) => {
            let s = match f {
                AisFragments::Complete(s) => s,
                AisFragments::Incomplete(s) => s,
            };
            meta.paylen = s.data.len();
            if let Some(m) = &s.message {
                msg_meta(m, &mut meta);
            }
            format!("OK {:?}", f)
        }
        Err(Error::Nmea { .. }) => "ERR Nmea".to_string(),
        Err(Error::Checksum { expected, found }) => format!("ERR Checksum {} {}", expected, found),
    };
    (s, meta)
}

pub fn canon_msg(r: &ais::Result<AisMessage>) -> (String, Meta) {
    let mut meta = Meta::default();
    let s = match r {
        Ok(m) => {
            msg_meta(m, &mut meta);
            format!("OK {:?}", m)
        }
        Err(Error::Nmea { .. }) => "ERR Nmea".to_string(),
        Err(Error::Checksum { expected, found }) => format!("ERR Checksum {} {}", expected, found),
    };
    (s, meta)
}

pub fn fnv(s: &str) -> u64 {
    let mut h = 0xcbf29ce484222325u64;
    for b in s.as_bytes() {
        h ^= *b as u64;
        h = h.wrapping_mul(0x100000001b3);
    }
    h
}

// ---------- sink ----------
pub enum Mode {
    Write(BufWriter<File>),
    Check(BufReader<File>),
    Off,
}

pub struct Sink {
    mode: Mode,
    build: String,
    pub cases: u64,
    pub explained: u64,
    pub wire_text: u64,
    pub unexplained: u64,
    pub report: Vec<String>,
    /// when set, the length of the binary field in the reference outcome is no excuse
    pub strict_bin: bool,
}

impl Sink {
    pub fn open(name: &str) -> Sink {
        let mode = std::env::var("HUNT_MODE").unwrap_or_default();
        let dir = std::env::var("HUNT_DIR").unwrap_or_else(|_| "/tmp/hunt/H1/wt/out".into());
        std::fs::create_dir_all(&dir).unwrap();
        let path = format!("{}/{}.ref", dir, name);
        let mode = match mode.as_str() {
            "write" => Mode::Write(BufWriter::new(File::create(path).unwrap())),
            "check" => Mode::Check(BufReader::new(File::open(path).unwrap())),
            _ => Mode::Off,
        };
        Sink {
            mode,
            build: std::env::var("HUNT_BUILD").unwrap_or_else(|_| "std".into()),
            cases: 0,
            explained: 0,
            wire_text: 0,
            unexplained: 0,
            report: Vec::new(),
            strict_bin: false,
        }
    }

    /// `extra_ok`: the caller's own reason why a capacity rejection is legitimate here
    pub fn case(&mut self, desc: &dyn Fn() -> String, outcome: &str, meta: &Meta, extra_ok: bool) {
        self.cases += 1;
        let h = fnv(outcome);
        let cat = if outcome.starts_with("OK") {
            "OK"
        } else if outcome.starts_with("ERR Nmea") {
            "EN"
        } else {
            "EC"
        };
        match &mut self.mode {
            Mode::Write(w) => {
                writeln!(
                    w,
                    "{:016x} {} {} {} {}",
                    h, cat, meta.paylen, meta.textlen, meta.binlen
                )
                .unwrap();
            }
            Mode::Check(r) => {
                let mut line = String::new();
                r.read_line(&mut line).unwrap();
                let parts: Vec<&str> = line.split_whitespace().collect();
                assert_eq!(parts.len(), 5, "reference file out of step");
                let rh = u64::from_str_radix(parts[0], 16).unwrap();
                if rh != h {
                    let rcat = parts[1];
                    let paylen: usize = parts[2].parse().unwrap();
                    let textlen: usize = parts[3].parse().unwrap();
                    let binlen: usize = parts[4].parse().unwrap();
                    let capacity = paylen > 384 || textlen > 20 || (binlen > 119 && !self.strict_bin) || extra_ok;
                    if self.build == "none" && rcat == "OK" && cat == "EN" && capacity {
                        self.explained += 1;
                    } else if self.build == "none" && rcat == "OK" && cat == "EN" && meta.wire > 21 {
                        self.wire_text += 1;
                        if self.wire_text <= 3 {
                            let d = desc();
                            println!("WIRE-TEXT case#{} text={} wire={} :: {}", self.cases, textlen, meta.wire, &d[..d.len().min(300)]);
                        }
                    } else {
                        self.unexplained += 1;
                        if self.report.len() < 12 {
                            self.report.push(format!(
                                "MISMATCH case#{} ref=({} pay={} text={} bin={}) here={} :: {}",
                                self.cases,
                                rcat,
                                paylen,
                                textlen,
                                binlen,
                                &outcome[..outcome.len().min(600)],
                                { let d = desc(); d[..d.len().min(400)].to_string() }
                            ));
                        }
                    }
                }
            }
            Mode::Off => {}
        }
    }

    /// keeps the reference file in step without judging the case
    pub fn skip(&mut self, outcome: &str) {
        let saved = (self.unexplained, self.explained, self.wire_text, self.report.len());
        self.case(&|| String::new(), outcome, &Meta::default(), false);
        self.unexplained = saved.0;
        self.explained = saved.1;
        self.wire_text = saved.2;
        self.report.truncate(saved.3);
    }

    pub fn finish(mut self, name: &str) {
        if let Mode::Write(w) = &mut self.mode {
            w.flush().unwrap();
        }
        println!(
            "[{}] build={} cases={} explained_capacity={} wire_text_over_21_but_text_le_20={} unexplained={}",
            name, self.build, self.cases, self.explained, self.wire_text, self.unexplained
        );
        for r in &self.report {
            println!("{}", r);
        }
        assert_eq!(self.unexplained, 0, "unexplained cross-build mismatches");
    }
}

fn lossy(b: &[u8]) -> String {
    String::from_utf8_lossy(b).into_owned()
}

// ---------- G1: decoder sweep over types, lengths, fills, patterns ----------
fn gen_payload(rng: &mut Rng, typ: u8, nchars: usize, pattern: u8) -> Vec<u8> {
    // 6-bit symbol values
    let mut bits: Vec<u8> = Vec::with_capacity(nchars * 6);
    push_bits(&mut bits, typ as u64, 6);
    let total = nchars * 6;
    match pattern {
        0 => bits.resize(total, 0),
        1 => bits.resize(total, 1),
        2 => {
            while bits.len() < total {
                bits.push((rng.next() & 1) as u8);
            }
        }
        // texty with a phase: header random up to 38+phase bits, then symbols
        p => {
            let phase = (p - 3) as usize % 6;
            while bits.len() < (38 + phase).min(total) {
                bits.push((rng.next() & 1) as u8);
            }
            while bits.len() < total {
                let sym = match rng.below(8) {
                    0 | 1 => 0u64,  // '@'
                    2 | 3 => 32u64, // ' '
                    4 => 1,         // 'A'
                    5 => 63,        // '?'
                    _ => rng.below(64),
                };
                push_bits(&mut bits, sym, 6);
            }
            bits.truncate(total);
        }
    }
    let (chars, fill) = armor_bits(&bits, 0);
    assert_eq!(fill, 0);
    chars
}

#[test]
fn g1_decoder_sweep() {
    let mut sink = Sink::open("g1");
    sink.strict_bin = true;
    let mut rng = Rng::new(1);
    let maxchars: usize = std::env::var("HUNT_G1_MAX").ok().and_then(|s| s.parse().ok()).unwrap_or(387);
    for typ in 0u8..=28 {
        for nchars in 1..=maxchars {
            for pattern in 0u8..9 {
                let payload = gen_payload(&mut rng, typ, nchars, pattern);
                for fill in 0u8..=5 {
                    // random patterns: every fill; constant patterns: every fill as well
                    let line = sentence("1", "1", "", "A", &payload, fill);
                    let mut p = AisParser::new();
                    let r = p.parse(&line, true);
                    let (out, mut meta) = canon_frag(&r);
                    meta.wire = wire_chars(typ, (nchars * 6 + 7) / 8);
                    // binary data the sentence declares: all bits but the header and the fill bits
                    let head = match typ { 6 => 88, 8 => 56, 17 => 120, _ => usize::MAX };
                    let declared_bits = (nchars * 6).saturating_sub(fill as usize).saturating_sub(head);
                    let cap = head != usize::MAX && declared_bits > 119 * 8;
                    sink.case(&|| format!("declared binary bits={} {}", declared_bits, lossy(&line)), &out, &meta, cap);
                }
            }
        }
    }
    sink.finish("g1");
}

// ---------- G2: safety text boundaries (types 12 and 14) ----------
#[test]
fn g2_safety_text() {
    let mut sink = Sink::open("g2");
    let mut rng = Rng::new(2);
    for typ in [12u8, 14u8] {
        for lead in 0..=3usize {
            for body in 0..=24usize {
                for tsp in 0..=2usize {
                    for tat in 0..=3usize {
                        for extra_bits in 0..=7usize {
                            let wire = lead + body + tsp + tat;
                            if wire > 26 {
                                continue;
                            }
                            let mut bits = Vec::new();
                            push_bits(&mut bits, typ as u64, 6);
                            push_bits(&mut bits, rng.below(4), 2);
                            push_bits(&mut bits, rng.below(1 << 30), 30);
                            if typ == 12 {
                                push_bits(&mut bits, rng.below(4), 2);
                                push_bits(&mut bits, rng.below(1 << 30), 30);
                                push_bits(&mut bits, rng.below(4), 2);
                            } else {
                                push_bits(&mut bits, rng.below(4), 2);
                            }
                            for _ in 0..lead {
                                push_bits(&mut bits, 32, 6);
                            }
                            for i in 0..body {
                                // letters and digits, never space or '@'
                                let sym = if i % 3 == 0 { 1 + rng.below(26) } else { 48 + rng.below(10) };
                                push_bits(&mut bits, sym, 6);
                            }
                            for _ in 0..tsp {
                                push_bits(&mut bits, 32, 6);
                            }
                            for _ in 0..tat {
                                push_bits(&mut bits, 0, 6);
                            }
                            for _ in 0..extra_bits {
                                bits.push((rng.next() & 1) as u8);
                            }
                            for pad in 0..=1u8 {
                                let (payload, fill) = armor_bits(&bits, pad);
                                for f in [fill, 0, 5] {
                                    let line = sentence("1", "1", "", "B", &payload, f);
                                    let mut p = AisParser::new();
                                    let r = p.parse(&line, true);
                                    let (out, mut meta) = canon_frag(&r);
                                    meta.wire = wire_chars(typ, (payload.len() * 6 + 7) / 8);
                                    sink.case(
                                        &|| {
                                            format!(
                                                "typ={} lead={} body={} tsp={} tat={} extra={} {}",
                                                typ, lead, body, tsp, tat, extra_bits, lossy(&line)
                                            )
                                        },
                                        &out,
                                        &meta,
                                        false,
                                    );
                                }
                            }
                        }
                    }
                }
            }
        }
    }
    sink.finish("g2");
}

fn ref_unarmor(data: &[u8], fill: usize) -> Vec<u8> {
    let mut bits = Vec::new();
    for c in data {
        let v = if (48..=87).contains(c) { c - 48 } else { c - 56 };
        push_bits(&mut bits, v as u64, 6);
    }
    let n = bits.len();
    for i in 0..fill.min(n) {
        bits[n - 1 - i] = 0;
    }
    while bits.len() % 8 != 0 {
        bits.push(0);
    }
    bits.chunks(8).map(|c| c.iter().fold(0u8, |a, b| (a << 1) | b)).collect()
}

// ---------- G4: the two public payload functions on arbitrary bytes ----------
#[test]
fn g4_payload_functions() {
    let mut sink = Sink::open("g4");
    let mut rng = Rng::new(4);
    // messages::parse on arbitrary byte strings
    for typ in 0u8..=28 {
        for len in 0..=520usize {
            for pattern in 0..8u8 {
                let mut data: Vec<u8> = (0..len)
                    .map(|_| match pattern {
                        0 => 0u8,
                        1 => 0xff,
                        _ => rng.next() as u8,
                    })
                    .collect();
                if len > 0 {
                    data[0] = (typ << 2) | (data[0] & 3);
                }
                let r = messages::parse(&data);
                let (out, mut meta) = canon_msg(&r);
                meta.wire = wire_chars(typ, len);
                sink.case(&|| format!("parse {:?}", data), &out, &meta, false);
            }
        }
    }
    // unarmor on arbitrary byte strings
    for len in 0..=600usize {
        for pattern in 0..5u8 {
            let data: Vec<u8> = (0..len)
                .map(|_| match pattern {
                    0 => b'0',
                    1 => b'w',
                    2 => armor_char(rng.below(64) as u8),
                    3 => {
                        if rng.below(50) == 0 {
                            rng.next() as u8
                        } else {
                            armor_char(rng.below(64) as u8)
                        }
                    }
                    _ => rng.next() as u8,
                })
                .collect();
            for fill in 0..=5usize {
                let r = messages::unarmor(&data, fill);
                if let Ok(v) = &r {
                    assert_eq!(&v[..], &ref_unarmor(&data, fill)[..], "unarmor differs from reference: fill={} {:?}", fill, lossy(&data));
                }
                let out = match &r {
                    Ok(v) => format!("OK {:?}", &v[..]),
                    Err(Error::Nmea { .. }) => "ERR Nmea".to_string(),
                    Err(_) => "ERR other".to_string(),
                };
                // capacity: 384 bytes of output
                let cap = (len * 6 + 7) / 8 > 384;
                sink.case(&|| format!("unarmor fill={} {:?}", fill, lossy(&data)), &out, &Meta::default(), cap);
            }
        }
    }
    sink.finish("g4");
}

// ---------- G5: sentence layer at the 384 boundary, with histories ----------
#[derive(Clone)]
struct Planned {
    line: Vec<u8>,
    // Some((n, k, id, paylen)) for a well-formed line with a good checksum
    fields: Option<(u32, u32, Option<u32>, usize)>,
    known_exception_shape: bool,
}

fn rand_payload(rng: &mut Rng, len: usize) -> Vec<u8> {
    let mut v: Vec<u8> = (0..len).map(|_| armor_char(rng.below(64) as u8)).collect();
    if len > 0 && rng.below(3) > 0 {
        // a decodable type most of the time
        let t = [1u8, 4, 5, 6, 7, 8, 12, 14, 15, 16, 17, 18, 19, 20, 21, 24, 27][rng.below(17) as usize];
        v[0] = armor_char(t);
    }
    v
}

fn boundary_len(rng: &mut Rng) -> usize {
    match rng.below(10) {
        0 => 383,
        1 | 2 => 384,
        3 => 385,
        4 => 386 + rng.below(40) as usize,
        5 => 300 + rng.below(84) as usize,
        _ => 1 + rng.below(80) as usize,
    }
}

fn id_str(id: Option<u32>) -> String {
    match id {
        None => String::new(),
        Some(v) => v.to_string(),
    }
}

fn plan_group(rng: &mut Rng, out: &mut Vec<Planned>) {
    let n = 2 + rng.below(4) as u32;
    let id = match rng.below(4) {
        0 => None,
        1 => Some(rng.below(10) as u32),
        2 => Some(10 + rng.below(246) as u32),
        _ => Some(rng.below(3) as u32),
    };
    // total length aimed at the boundary
    let total = match rng.below(8) {
        0 => 383,
        1 | 2 | 3 => 384,
        4 => 385,
        5 => 386 + rng.below(300) as usize,
        _ => 2 + rng.below(382) as usize,
    };
    // split into n parts (parts may be empty only rarely - an empty payload is malformed)
    let mut cuts: Vec<usize> = (0..n - 1).map(|_| rng.below(total as u64 + 1) as usize).collect();
    cuts.sort();
    let mut lens = Vec::new();
    let mut prev = 0;
    for c in &cuts {
        lens.push(c - prev);
        prev = *c;
    }
    lens.push(total - prev);
    if rng.below(6) == 0 {
        // one single fragment at the sentence boundary instead
        let which = rng.below(n as u64) as usize;
        lens[which] = [383, 384, 385, 386][rng.below(4) as usize];
    }
    let chan = ["A", "B", "", "1"][rng.below(4) as usize];
    for k in 1..=n {
        let len = lens[(k - 1) as usize];
        let payload = rand_payload(rng, len);
        let fill = if k == n { rng.below(6) as u8 } else { 0 };
        let line = sentence(&n.to_string(), &k.to_string(), &id_str(id), chan, &payload, fill);
        let fields = if len == 0 { None } else { Some((n, k, id, len)) };
        out.push(Planned { line, fields, known_exception_shape: false });
    }
    // disturbances
    match rng.below(10) {
        0 => {
            let i = rng.below(out.len() as u64) as usize;
            out.remove(i);
        }
        1 => {
            let i = rng.below(out.len() as u64) as usize;
            let d = out[i].clone();
            out.insert(i, d);
        }
        2 => {
            let i = rng.below(out.len() as u64) as usize;
            let j = rng.below(out.len() as u64) as usize;
            out.swap(i, j);
        }
        _ => {}
    }
}

fn plan_single(rng: &mut Rng) -> Planned {
    let len = boundary_len(rng);
    let payload = rand_payload(rng, len);
    let fill = rng.below(6) as u8;
    let (n, k) = match rng.below(12) {
        0 => (1u32, 2u32),
        1 => (2, 3),
        2 => (0, 1),
        3 => (0, 0),
        4 => (3, 0),
        _ => (1, 1),
    };
    let id = if rng.below(3) == 0 { Some(rng.below(4) as u32) } else { None };
    let line = sentence(&n.to_string(), &k.to_string(), &id_str(id), "A", &payload, fill);
    Planned {
        line,
        fields: Some((n, k, id, len)),
        known_exception_shape: n == 0 && k == 1,
    }
}

fn corrupt(rng: &mut Rng, p: &Planned) -> Planned {
    let mut line = p.line.clone();
    match rng.below(5) {
        0 => {
            // wrong checksum
            let l = line.len();
            line[l - 1] = if line[l - 1] == b'0' { b'1' } else { b'0' };
        }
        1 => {
            // corrupt a byte of the body
            let i = 1 + rng.below(line.len() as u64 - 4) as usize;
            line[i] ^= 1 << rng.below(7);
        }
        2 => {
            // truncate
            let i = rng.below(line.len() as u64) as usize;
            line.truncate(i);
        }
        3 => {
            // bad fill count but right checksum: rebuild with ",9"
            let star = line.iter().rposition(|c| *c == b'*').unwrap();
            line[star - 1] = b'9';
            let ck = checksum(&line[1..star]);
            line.truncate(star);
            line.extend_from_slice(format!("*{:02X}", ck).as_bytes());
        }
        _ => {
            // trailing field inserted
            let star = line.iter().rposition(|c| *c == b'*').unwrap();
            let mut body = line[1..star].to_vec();
            body.extend_from_slice(b",x");
            let ck = checksum(&body);
            line = vec![b'!'];
            line.extend_from_slice(&body);
            line.extend_from_slice(format!("*{:02X}", ck).as_bytes());
        }
    }
    Planned { line, fields: None, known_exception_shape: false }
}

#[test]
fn g5_sentence_boundaries() {
    let mut sink = Sink::open("g5");
    let mut rng = Rng::new(std::env::var("HUNT_SEED").ok().and_then(|s| s.parse().ok()).unwrap_or(5));
    let histories: usize = std::env::var("HUNT_G5_N").ok().and_then(|s| s.parse().ok()).unwrap_or(40000);
    let mut known = 0u64;
    for _h in 0..histories {
        let mut plan: Vec<Planned> = Vec::new();
        let groups = 1 + rng.below(4);
        for _ in 0..groups {
            let mut g = Vec::new();
            if rng.below(4) == 0 {
                g.push(plan_single(&mut rng));
            } else {
                plan_group(&mut rng, &mut g);
            }
            // interleave noise
            let mut with_noise = Vec::new();
            for p in g {
                match rng.below(8) {
                    0 => with_noise.push(plan_single(&mut rng)),
                    1 => {
                        let c = corrupt(&mut rng, &p);
                        with_noise.push(c)
                    }
                    _ => {}
                }
                with_noise.push(p);
            }
            plan.extend(with_noise);
        }
        let decode = rng.below(2) == 0;
        // model of the std state machine, to know when the open group has exceeded a capacity
        let mut m_id: Option<u32> = None;
        let mut m_last: u32 = 0;
        let mut m_acc: usize = 0;
        let mut tainted = false;
        let mut parser = AisParser::new();
        let hist_desc: Vec<String> = plan.iter().map(|p| lossy(&p.line)).collect();
        for (i, p) in plan.iter().enumerate() {
            let r = parser.parse(&p.line, decode);
            let (out, meta) = canon_frag(&r);
            let mut justified = false;
            let mut skip_known = false;
            if let Some((n, k, id, len)) = p.fields {
                let has_more = k < n;
                let is_fragment = n != 1;
                if has_more {
                    if k == 1 {
                        m_id = id;
                        m_last = 0;
                        m_acc = 0;
                        tainted = false;
                    }
                    if m_id == id && m_last + 1 == k {
                        m_acc += len;
                        m_last = k;
                        if len > 384 || m_acc > 384 {
                            tainted = true;
                        }
                        justified = tainted;
                    }
                } else if is_fragment {
                    if m_id == id && m_last + 1 == k {
                        m_acc += len;
                        if len > 384 || m_acc > 384 {
                            tainted = true;
                        }
                        justified = tainted;
                        m_id = None;
                        m_last = 0;
                        m_acc = 0;
                        tainted = false;
                    } else if p.known_exception_shape && tainted && id.is_none() {
                        skip_known = true;
                    }
                } else {
                    justified = len > 384;
                }
            }
            if skip_known {
                known += 1;
                // the known exception: keep the reference file in step, but do not judge.
                // After it the builds' states differ legitimately (the no-alloc build delivered
                // an empty group and is closed; the others still hold their group) - stop here.
                sink.skip(&out);
                // make outcome irrelevant: in check mode a mismatch is counted as explained
                break;
            }
            sink.case(
                &|| format!("decode={} line#{} of history {:#?}", decode, i, hist_desc),
                &out,
                &meta,
                justified,
            );
        }
    }
    println!("known-exception shapes skipped: {}", known);
    sink.finish("g5");
}

// ---------- G6: mutational fuzz of whole lines ----------
fn fix_checksum(line: &mut Vec<u8>) {
    // recompute the checksum over the bytes between the first '!'/'$' and the first following '*'
    let start = match line.iter().position(|c| *c == b'!' || *c == b'$') {
        Some(s) => s,
        None => return,
    };
    let star = match line[start..].iter().position(|c| *c == b'*') {
        Some(s) => start + s,
        None => return,
    };
    let ck = checksum(&line[start + 1..star]);
    line.truncate(star + 1);
    line.extend_from_slice(format!("{:02X}", ck).as_bytes());
}

fn lenient_payload_len(line: &[u8]) -> usize {
    // longest comma-separated field: an upper bound for the payload length
    line.split(|c| *c == b',').map(|f| f.len()).max().unwrap_or(0)
}

#[test]
fn g6_mutations() {
    let mut sink = Sink::open("g6");
    let mut rng = Rng::new(std::env::var("HUNT_SEED").ok().and_then(|s| s.parse().ok()).unwrap_or(6));
    let rounds: usize = std::env::var("HUNT_G6_N").ok().and_then(|s| s.parse().ok()).unwrap_or(300000);
    let interesting: &[u8] = b",,,**!$\\0123456789AB\x00\xff\r\n wW`@";
    for _ in 0..rounds {
        // base line
        let len = match rng.below(6) {
            0 => 380 + rng.below(10) as usize,
            _ => 1 + rng.below(70) as usize,
        };
        let payload = rand_payload(&mut rng, len);
        let (n, k) = [(1, 1), (1, 1), (1, 1), (2, 1), (2, 2), (0, 1), (3, 2)][rng.below(7) as usize];
        let id = if rng.below(2) == 0 { String::new() } else { rng.below(12).to_string() };
        let mut line = sentence(&n.to_string(), &k.to_string(), &id, ["A", "B", "", "AB"][rng.below(4) as usize], &payload, rng.below(6) as u8);
        if rng.below(10) == 0 {
            let mut t = b"\\s:x,c:1*00\\".to_vec();
            t.extend_from_slice(&line);
            line = t;
        }
        let muts = rng.below(4);
        for _ in 0..muts {
            if line.is_empty() {
                break;
            }
            let pos = rng.below(line.len() as u64) as usize;
            // favour the header and the tail, where the structure is
            let pos = match rng.below(3) {
                0 => pos.min(rng.below(20) as usize),
                1 => line.len() - 1 - (line.len() - 1 - pos).min(rng.below(8) as usize),
                _ => pos,
            };
            match rng.below(5) {
                0 => line[pos] = interesting[rng.below(interesting.len() as u64) as usize],
                1 => line.insert(pos, interesting[rng.below(interesting.len() as u64) as usize]),
                2 => {
                    line.remove(pos);
                }
                3 => line[pos] = rng.next() as u8,
                _ => {
                    let end = (pos + 1 + rng.below(6) as usize).min(line.len());
                    let seg = line[pos..end].to_vec();
                    for (i, b) in seg.iter().enumerate() {
                        line.insert(pos + i, *b);
                    }
                }
            }
        }
        if rng.below(3) > 0 {
            fix_checksum(&mut line);
        }
        let decode = rng.below(4) > 0;
        let mut p = AisParser::new();
        let r = p.parse(&line, decode);
        let (out, mut meta) = canon_frag(&r);
        meta.wire = 99; // the wire-text category is allowed to absorb type 12/14 texts here
        let cap = lenient_payload_len(&line) > 384;
        sink.case(&|| format!("decode={} {:?}", decode, lossy(&line)), &out, &meta, cap);
        // the same line again on the same parser, and the second half of a group after it
        let r2 = p.parse(&line, decode);
        let (out2, mut meta2) = canon_frag(&r2);
        meta2.wire = 99;
        sink.case(&|| format!("(second time) decode={} {:?}", decode, lossy(&line)), &out2, &meta2, cap);
    }
    sink.finish("g6");
}
